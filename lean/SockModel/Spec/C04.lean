import SockModel.Model.LocksExec
/-!
# Spec.C04 - the run-time oracle of C04 / C05 / C08 as an executable predicate over typed
observations, and the proof that the model satisfies it for every history

`specStep` is what `./check C04`, `./check C05` and `./check C08` evaluate on the IMPLEMENTATION's
scheduler trace (`Drive/C04.lean` parses every `ev T<k> ...` / `outcome ...` / `crash ...` line into an
`Obs` and calls exactly these functions).  It mentions no model state: only which thread did what.
The predicate is the product of three monitors, one per property:

* `stepA` (C04): ownership of `stepMtx` according to the lock events alone (nobody acquires it while
  another thread holds it), handlers / tasks run on thread 0 (the thread executing Step/Run) while it
  holds `stepMtx`, never two at a time, and nothing of a socket / ToDo starts or is still running once
  its destructor / `Cancel` has returned on another thread;
* `stepB` (C05): the driver begins at most one step while a caller waits for `stepMtx` after its wake-up
  datagram;
* `stepC` (C08): `Run` begins at most one further step after a `Stop()` had returned, `Run` does not
  return without a `Stop()`, and an execution does not end inside a `Run` after a `Stop()`.

The outcomes `deadlock` / `stuck` / `crash` are failures in every mode.

The second half composes the UNCHANGED lock model (`Model/Locks.lean`, executable form `Locks.apply`)
with the little data the markers talk about (the handler / task in progress on the driver thread,
registered sockets, listed ToDos, recursive acquisitions of `stepMtx`) into `MSt`, defines the
observations a history of model operations produces (`modelStep`, `modelTrace`: which thread moved,
which marker) and proves `model_satisfies_spec`: the predicate accepts every trace of the model, for
every history of any length, any number of user threads and any programs, in every mode.
-/
namespace SockModel.Locks.Spec
open SockModel.Locks

abbrev Name := String

/-- what the driver thread invokes: a socket handler or a ToDo task -/
inductive Kind where
  | handler | task
  deriving DecidableEq, Repr

def Kind.str : Kind → String
  | .handler => "handler"
  | .task => "task"

/-- the management action whose return an `end` marker reports -/
inductive Act where
  | attach | close | cancel | shift | todo | other
  deriving DecidableEq, Repr

/-- one scheduler event of one thread (thread 0 = the thread executing Step/Run) -/
inductive Ev where
  | lockStep                       -- blocking lock of stepMtx granted
  | tryStepOk                      -- try_lock of stepMtx succeeded
  | unlockStep
  | bump                           -- datagram sent to the signalling pipe
  | enter (k : Kind) (n : Name)    -- handler of socket `n` / task of ToDo `n` starts
  | exit                           -- ... returns
  | endAct (n : Name) (a : Act)    -- management call `a` on `n` has returned
  | beginStop (plain : Bool)       -- Stop() begins (flag store); `plain` = not from a task / signal handler
  | endStop                        -- Stop() has returned
  | runEnter | runExit
  | other                          -- any other event (pauseMtx, poll, try_lock failed, yield, ...)
  deriving DecidableEq, Repr

inductive Obs where
  | ev (t : Nat) (e : Ev)
  | done                           -- every thread has finished
  | deadlock (what : String)       -- all threads parked, none enabled
  | stuck (what : String)
  | crash (what : String)
  deriving DecidableEq, Repr

structure Mode where
  c04 : Bool
  c05 : Bool
  c08 : Bool

/-! ## C04: exclusion and quiescence -/

structure ASt where
  owner : Option Nat := none            -- who holds stepMtx according to the lock events alone
  count : Nat := 0
  inHandler : Option (Kind × Name) := none
  closed : List Name := []              -- sockets whose destructor returned on a non-driver thread
  cancelled : List Name := []           -- ToDos whose Cancel returned on a non-driver thread
  deriving Repr

def enterCheck (s : ASt) (t : Nat) (k : Kind) (n : Name) : Option String :=
  if t ≠ 0 then some s!"{k.str} of {n} ran on thread T{t}, not on the thread executing Step/Run"
  else if s.owner ≠ some 0 then some s!"{k.str} of {n} invoked while the driver thread does not hold stepMtx"
  else match s.inHandler with
    | some (k', n') => some s!"{k.str} of {n} started while {k'.str} {n'} is still running"
    | none =>
      if k = .handler ∧ s.closed.contains n = true then
        some s!"handler of socket {n} started after its destructor had returned on another thread"
      else if k = .task ∧ s.cancelled.contains n = true then
        some s!"task of {n} started after Cancel() had returned on another thread"
      else none

def stepA (c04 : Bool) (s : ASt) : Obs → Except String ASt
  | .ev t .lockStep | .ev t .tryStepOk =>
    match s.owner with
    | some o =>
      if o ≠ t ∧ c04 = true then .error s!"thread T{t} acquired stepMtx while T{o} holds it"
      else .ok { s with count := s.count + 1 }
    | none => .ok { s with owner := some t, count := 1 }
  | .ev t .unlockStep =>
    .ok (if s.owner = some t then
           (if s.count ≤ 1 then { s with owner := none, count := 0 } else { s with count := s.count - 1 })
         else s)
  | .ev t (.enter k n) =>
    match (if c04 = true then enterCheck s t k n else none) with
    | some msg => .error msg
    | none => .ok { s with inHandler := some (k, n) }
  | .ev _ .exit => .ok { s with inHandler := none }
  | .ev t (.endAct n .close) =>
    if t ≠ 0 then
      if c04 = true ∧ s.inHandler = some (.handler, n) then
        .error s!"destructor of socket {n} returned on another thread while its handler is still running"
      else .ok { s with closed := n :: s.closed }
    else .ok s
  | .ev t (.endAct n .cancel) =>
    if t ≠ 0 then
      if c04 = true ∧ s.inHandler = some (.task, n) then
        .error s!"Cancel() of {n} returned on another thread while its task is still running"
      else .ok { s with cancelled := n :: s.cancelled }
    else .ok s
  | .ev _ (.endAct n .shift) | .ev _ (.endAct n .todo) =>
    .ok { s with cancelled := s.cancelled.filter (· ≠ n) }
  | _ => .ok s

/-! ## C05: bounded hand-over -/

structure BSt where
  stopping : List Nat := []         -- user threads between the flag store of their Stop() and its datagram
  bumped : List (Nat × Nat) := []   -- (user, driver step-begins since its wake-up datagram)
  deriving Repr

def stepB (c05 : Bool) (s : BSt) : Obs → Except String BSt
  | .ev t .lockStep =>
    if t = 0 then
      -- the driver begins a step
      let b := s.bumped.map (fun p => (p.1, p.2 + 1))
      match (if c05 = true then b.find? (fun p => p.2 > 1) else none) with
      | some (u, n) => .error s!"driver began {n} steps while T{u} waits for stepMtx after its wake-up datagram"
      | none => .ok { s with bumped := b }
    else .ok { s with bumped := s.bumped.filter (fun p => p.1 ≠ t) }
  | .ev t .tryStepOk =>
    if t ≠ 0 then .ok { s with bumped := s.bumped.filter (fun p => p.1 ≠ t) } else .ok s
  | .ev t .bump =>
    if t ≠ 0 then
      if s.stopping.contains t = true then .ok { s with stopping := s.stopping.filter (· ≠ t) }
      else .ok { s with bumped := s.bumped ++ [(t, 0)] }
    else .ok s
  | .ev t (.beginStop plain) =>
    if t ≠ 0 ∧ plain = true then .ok { s with stopping := t :: s.stopping } else .ok s
  | _ => .ok s

/-! ## C08: Stop ends Run -/

structure CSt where
  stopDone : Bool := false          -- a Stop() that obliges the Run in progress has returned
  stepsSinceStop : Nat := 0
  stopBegun : Bool := false
  pendingStops : List Nat := []     -- threads whose Stop() stored the flag and no Run has returned since
  runExited : Bool := false
  inRun : Bool := false
  deriving Repr

def stepC (c08 : Bool) (s : CSt) : Obs → Except String CSt
  | .ev t .lockStep =>
    if t = 0 then
      let k := if s.stopDone = true ∧ s.inRun = true then s.stepsSinceStop + 1 else s.stepsSinceStop
      if c08 = true ∧ k > 1 then .error s!"Run began {k} further steps after a Stop() had returned"
      else .ok { s with stepsSinceStop := k }
    else .ok s
  | .ev t .endStop =>
    -- only a Stop that no Run has consumed yet obliges the Run in progress
    if s.pendingStops.contains t = true then .ok { s with stopDone := true, stepsSinceStop := 0 } else .ok s
  | .ev t (.beginStop _) => .ok { s with stopBegun := true, pendingStops := t :: s.pendingStops }
  | .ev _ .runEnter => .ok { s with inRun := true, stepsSinceStop := 0 }
  | .ev _ .runExit =>
    if c08 = true ∧ s.stopBegun = false then .error "Run() returned although no Stop() was ever called"
    else .ok { s with runExited := true, stopDone := false, stopBegun := false, stepsSinceStop := 0,
                      pendingStops := [], inRun := false }
  | .done =>
    if c08 = true ∧ s.stopBegun = true ∧ s.runExited = false ∧ s.inRun = true then
      .error "Run() did not return after Stop()"
    else .ok s
  | _ => .ok s

/-! ## the predicate -/

structure SpecSt where
  a : ASt := {}
  b : BSt := {}
  c : CSt := {}
  deriving Repr

/-- C04 / C05 / C08 on one observation; an error message or the updated book-keeping -/
def specStep (m : Mode) (s : SpecSt) (o : Obs) : Except String SpecSt :=
  match o with
  | .deadlock x => .error ("deadlock / lost wake-up: no thread can make progress: " ++ x)
  | .stuck x => .error ("a thread is stuck outside the scheduler: " ++ x)
  | .crash x => .error ("crash: " ++ x)
  | o =>
    match stepA m.c04 s.a o with
    | .error e => .error e
    | .ok a =>
      match stepB m.c05 s.b o with
      | .error e => .error e
      | .ok b =>
        match stepC m.c08 s.c o with
        | .error e => .error e
        | .ok c => .ok ⟨a, b, c⟩

def specRun (m : Mode) (s : SpecSt) : List Obs → Except String SpecSt
  | [] => .ok s
  | o :: rest =>
    match specStep m s o with
    | .error e => .error e
    | .ok s' => specRun m s' rest

/-! ## the observations of the model

The lock model `Locks.St` / `Locks.apply` is used as it is.  What the markers talk about is added next to
it, not inside it: the handler / task in progress on the driver thread, the sockets registered with the
driver, the ToDos listed, and the number of recursive acquisitions of `stepMtx` by its owner (management
calls issued from a handler or task, nested guards: "their `try_lock` succeeds and changes nothing" in the
LTS).  Thread ids of the observations: 0 = driver thread, `t + 1` = user thread `t` of the LTS. -/

structure MSt where
  l : St := {}
  depth : Nat := 0                        -- recursive acquisitions of stepMtx by its owner
  run : Option (Kind × Name) := none      -- handler / task in progress on the driver thread
  socks : List Name := []                 -- sockets registered with the driver
  used : List Name := []                  -- socket names ever used (a name is never re-used)
  todos : List Name := []                 -- ToDos in the driver's list

/-- one operation of a history -/
inductive MOp where
  /-- a transition of the lock LTS (any label, any thread); ignored when it is not enabled -/
  | tr (l : L)
  /-- user thread `t` leaves the critical section of management call `a` on `n` (`uUnlock t`; the call
  mutated `sockets` / `todos` inside it) and the call returns -/
  | ret (t : Tid) (n : Name) (a : Act)
  /-- the owner of `stepMtx` (thread id of the observations) acquires it once more / gives that up -/
  | retry (tid : Nat)
  | reunlock (tid : Nat)
  /-- the driver thread invokes the handler of registered socket `n` / the task of listed ToDo `n`
  (only inside a step: `inStep` / `woke`, and only when none is in progress) -/
  | enter (k : Kind) (n : Name)
  /-- ... and it returns -/
  | exit
  /-- a management call issued from the handler / task in progress returns (driver thread) -/
  | dret (n : Name) (a : Act)
  /-- the execution is over (only when the driver thread is outside Run / Step) -/
  | done

def ownerObs : Owner → Option Nat
  | .none => none
  | .drv => some 0
  | .usr t => some (t + 1)

/-- a transition of the driver thread's own program (`dStop` is not: a Stop from a task, a handler or a
signal handler happens at any point of it) -/
def isDrv : L → Bool
  | .dRunEnter | .dRunExit | .dRunGo | .dStepEnter | .dLockStep | .dToPoll | .dPollPipe | .dPollOther
  | .dUnlockStep | .dLockPause | .dUnlockPause => true
  | _ => false

def isUnlock : L → Bool
  | .dUnlockStep | .uUnlock _ => true
  | _ => false

/-- the driver thread is inside a step and not blocked in `poll`: tasks run in `inStep`, one handler in `woke` -/
def inRegion : DPc → Bool
  | .inStep _ | .woke _ => true
  | _ => false

/-- the events the scheduler records for a transition, with the markers the thread emits in the same
uninterrupted segment (`dStop` is atomic in the LTS: flag store, datagram and return) -/
def evOf : L → List Obs
  | .dRunEnter => [.ev 0 .runEnter]
  | .dRunExit => [.ev 0 .runExit]
  | .dRunGo => []
  | .dStepEnter => [.ev 0 .other]
  | .dLockStep => [.ev 0 .lockStep]
  | .dToPoll => [.ev 0 .other]
  | .dPollPipe => [.ev 0 .other]
  | .dPollOther => [.ev 0 .other]
  | .dUnlockStep => [.ev 0 .unlockStep]
  | .dLockPause => [.ev 0 .other]
  | .dUnlockPause => [.ev 0 .other]
  | .dStop => [.ev 0 (.beginStop false), .ev 0 .bump, .ev 0 .endStop]
  | .uTryOk t => [.ev (t + 1) .tryStepOk]
  | .uTryFail t => [.ev (t + 1) .other]
  | .uLockPause t => [.ev (t + 1) .other]
  | .uBump t => [.ev (t + 1) .bump]
  | .uLockStep t => [.ev (t + 1) .lockStep]
  | .uRelPause t => [.ev (t + 1) .other]
  | .uUnlock t => [.ev (t + 1) .unlockStep]
  | .uStopSet t => [.ev (t + 1) (.beginStop true)]
  | .uStopBump t => [.ev (t + 1) .bump, .ev (t + 1) .endStop]

/-- what a management call does to `sockets` / `todos` inside its critical section -/
def mutate (a : Act) (n : Name) (m : MSt) : MSt :=
  match a with
  | .attach => if m.used.contains n = true then m else { m with socks := n :: m.socks, used := n :: m.used }
  | .close => { m with socks := m.socks.filter (· ≠ n), used := n :: m.used }
  | .cancel => { m with todos := m.todos.filter (· ≠ n) }
  | .shift => { m with todos := n :: m.todos.filter (· ≠ n) }
  | .todo => { m with todos := n :: m.todos.filter (· ≠ n) }
  | .other => m

def listed (m : MSt) : Kind → Name → Bool
  | .handler, n => m.socks.contains n
  | .task, n => m.todos.contains n

def modelStep (m : MSt) : MOp → MSt × List Obs
  | .tr l =>
    -- the driver thread does not proceed while a handler / task is in progress; the last release of the
    -- recursive mutex is the LTS transition, the others are `reunlock`
    if (isDrv l = true ∧ m.run.isSome = true) ∨ (isUnlock l = true ∧ m.depth ≠ 0) then (m, [])
    else match apply m.l l with
      | some l' => ({ m with l := l' }, evOf l)
      | none => (m, [])
  | .ret t n a =>
    if m.depth ≠ 0 then (m, [])
    else match apply m.l (.uUnlock t) with
      | some l' => (mutate a n { m with l := l' }, [.ev (t + 1) .unlockStep, .ev (t + 1) (.endAct n a)])
      | none => (m, [])
  | .retry tid =>
    if ownerObs m.l.step = some tid then ({ m with depth := m.depth + 1 }, [.ev tid .tryStepOk]) else (m, [])
  | .reunlock tid =>
    if ownerObs m.l.step = some tid ∧ m.depth ≠ 0 then ({ m with depth := m.depth - 1 }, [.ev tid .unlockStep])
    else (m, [])
  | .enter k n =>
    if m.run.isNone = true ∧ inRegion m.l.d = true ∧ listed m k n = true then
      ({ m with run := some (k, n), todos := if k = .task then m.todos.filter (· ≠ n) else m.todos },
       [.ev 0 (.enter k n)])
    else (m, [])
  | .exit =>
    match m.run with
    | some _ => ({ m with run := none }, [.ev 0 .exit])
    | none => (m, [])
  | .dret n a => if m.run.isSome = true then (mutate a n m, [.ev 0 (.endAct n a)]) else (m, [])
  | .done => if m.l.d = .idle then (m, [.done]) else (m, [])

def modelRun (m : MSt) : List MOp → MSt
  | [] => m
  | op :: rest => modelRun (modelStep m op).1 rest

/-- the observations the MODEL produces for a history -/
def modelTrace (m : MSt) : List MOp → List Obs
  | [] => []
  | op :: rest => (modelStep m op).2 ++ modelTrace (modelStep m op).1 rest

/-! ## proof that the predicate accepts every trace of the model -/

syntax "apply_cases " ident : tactic
/-- case analysis of a hypothesis `apply s l = some s'` for a concrete label `l` -/
macro_rules
  | `(tactic| apply_cases $h:ident) =>
    `(tactic| (simp only [apply] at $h:ident
               repeat' (split at $h:ident)
               all_goals (cases $h:ident)))

/-- a transition that acquires `stepMtx` -/
def isAcq : L → Bool
  | .dLockStep | .uTryOk _ | .uLockStep _ => true
  | _ => false

/-- the thread (id of the observations) of a label -/
def tidOf : L → Nat
  | .uTryOk t | .uTryFail t | .uLockPause t | .uBump t | .uLockStep t | .uRelPause t | .uUnlock t
  | .uStopSet t | .uStopBump t => t + 1
  | _ => 0

theorem apply_d_user {s s' : St} {l : L} (h : apply s l = some s') (hl : isDrv l = false) : s'.d = s.d := by
  cases l <;> first | (apply_cases h <;> rfl) | (simp [isDrv] at hl; done)

theorem apply_step_same {s s' : St} {l : L} (h : apply s l = some s') (ha : isAcq l = false)
    (hu : isUnlock l = false) : s'.step = s.step := by
  cases l <;> first | (apply_cases h <;> rfl) | (simp [isAcq] at ha; done) | (simp [isUnlock] at hu; done)

theorem apply_acq {s s' : St} {l : L} (h : apply s l = some s') (ha : isAcq l = true) :
    s.step = .none ∧ ownerObs s'.step = some (tidOf l) := by
  cases l <;> (first | (simp [isAcq] at ha; done) | skip) <;> apply_cases h
  · rename_i h1; exact ⟨h1, rfl⟩
  · rename_i h1; exact ⟨h1.2, rfl⟩
  · rename_i h1; exact ⟨h1.2, rfl⟩

theorem apply_unlock {s s' : St} {l : L} (hr : Reach s) (h : apply s l = some s') (hu : isUnlock l = true) :
    ownerObs s.step = some (tidOf l) ∧ s'.step = .none := by
  have inv := inv_reach hr
  cases l <;> (first | (simp [isUnlock] at hu; done) | skip) <;> apply_cases h
  · rename_i r hd
    have := inv.stepD.mp (by rw [hd]; rfl)
    exact ⟨by rw [this]; rfl, rfl⟩
  · rename_i t h1
    have := (inv.stepU t).mp (by rw [h1]; rfl)
    exact ⟨by rw [this]; rfl, rfl⟩

/-- invariant of the composed model -/
structure MInv (m : MSt) : Prop where
  reach : Reach m.l
  runReg : m.run.isSome = true → inRegion m.l.d = true
  depth0 : m.l.step = .none → m.depth = 0

theorem minv_init : MInv {} := ⟨Reach.init, (by intro h; cases h), (by intro _; rfl)⟩

theorem mutate_l (a : Act) (n : Name) (m : MSt) : (mutate a n m).l = m.l := by
  cases a <;> simp only [mutate] <;> (try split) <;> rfl
theorem mutate_depth (a : Act) (n : Name) (m : MSt) : (mutate a n m).depth = m.depth := by
  cases a <;> simp only [mutate] <;> (try split) <;> rfl
theorem mutate_run (a : Act) (n : Name) (m : MSt) : (mutate a n m).run = m.run := by
  cases a <;> simp only [mutate] <;> (try split) <;> rfl

theorem region_owns {d : DPc} (h : inRegion d = true) : d.ownsStep = true := by
  cases d <;> simp [inRegion] at h <;> rfl

/-- while a handler / task is in progress the driver thread owns `stepMtx` -/
theorem MInv.run_step {m : MSt} (h : MInv m) (hr : m.run.isSome = true) : m.l.step = .drv :=
  (inv_reach h.reach).stepD.mp (region_owns (h.runReg hr))

/-- while a user thread is in its critical section no handler / task is in progress (`quiescence`) -/
theorem MInv.crit_quiet {m : MSt} (h : MInv m) {t : Tid} (hc : m.l.u t = .crit) : m.run = none := by
  cases hr : m.run with
  | none => rfl
  | some x =>
    have h1 := h.run_step (by rw [hr]; rfl)
    have h2 := ((inv_reach h.reach).stepU t).mp (by rw [hc]; rfl)
    rw [h1] at h2; cases h2

theorem uUnlock_some {s s' : St} {t : Tid} (h : apply s (.uUnlock t) = some s') :
    s.u t = .crit ∧ s'.step = .none ∧ s'.d = s.d ∧ s'.stop = s.stop := by
  apply_cases h
  rename_i h1
  exact ⟨h1, rfl, rfl, rfl⟩

theorem minv_step {m : MSt} (h : MInv m) (op : MOp) : MInv (modelStep m op).1 := by
  cases op with
  | tr l =>
    simp only [modelStep]
    split
    · exact h
    · rename_i hg
      split
      · rename_i l' ha
        obtain ⟨b, tr⟩ := apply_sound ha
        refine ⟨Reach.step h.reach tr, ?_, ?_⟩
        · intro hr
          simp only at hr ⊢
          have hnd : isDrv l = false := by
            cases hd : isDrv l with
            | false => rfl
            | true => exact absurd (Or.inl ⟨hd, hr⟩) hg
          rw [apply_d_user ha hnd]; exact h.runReg hr
        · intro hs
          simp only at hs ⊢
          cases hacq : isAcq l with
          | true => have := (apply_acq ha hacq).2; rw [hs] at this; cases this
          | false =>
            cases hul : isUnlock l with
            | true =>
              cases hd : m.depth with
              | zero => rfl
              | succ k => exact absurd (Or.inr ⟨hul, by omega⟩) hg
            | false => exact h.depth0 (by rw [← apply_step_same ha hacq hul]; exact hs)
      · exact h
  | ret t n a =>
    simp only [modelStep]
    split
    · exact h
    · rename_i hd
      split
      · rename_i l' ha
        obtain ⟨b, tr⟩ := apply_sound ha
        obtain ⟨hc, hs', hdd, _⟩ := uUnlock_some ha
        refine ⟨by rw [mutate_l]; exact Reach.step h.reach tr, ?_, ?_⟩
        · rw [mutate_run, mutate_l]; intro hr; simp only at hr ⊢
          rw [h.crit_quiet hc] at hr; cases hr
        · rw [mutate_l, mutate_depth]; intro _; simp only; omega
      · exact h
  | retry tid =>
    simp only [modelStep]
    split
    · rename_i ho
      refine ⟨h.reach, h.runReg, ?_⟩
      intro hs; simp only at hs; rw [hs] at ho; cases ho
    · exact h
  | reunlock tid =>
    simp only [modelStep]
    split
    · rename_i ho
      refine ⟨h.reach, h.runReg, ?_⟩
      intro hs; simp only at hs; rw [hs] at ho; cases ho.1
    · exact h
  | enter k n =>
    simp only [modelStep]
    split
    · rename_i hg
      exact ⟨h.reach, fun _ => hg.2.1, h.depth0⟩
    · exact h
  | exit =>
    simp only [modelStep]
    split
    · exact ⟨h.reach, (by intro hr; cases hr), h.depth0⟩
    · exact h
  | dret n a =>
    simp only [modelStep]
    split
    · exact ⟨by rw [mutate_l]; exact h.reach, by rw [mutate_run, mutate_l]; exact h.runReg,
        by rw [mutate_l, mutate_depth]; exact h.depth0⟩
    · exact h
  | done =>
    simp only [modelStep]
    split <;> exact h

/-- run one monitor over a list of observations -/
def runM {σ : Type} (step : σ → Obs → Except String σ) (s : σ) : List Obs → Except String σ
  | [] => .ok s
  | o :: rest =>
    match step s o with
    | .error e => .error e
    | .ok s' => runM step s' rest

theorem runM_append {σ : Type} (step : σ → Obs → Except String σ) (s s' : σ) (xs ys : List Obs)
    (h : runM step s xs = .ok s') : runM step s (xs ++ ys) = runM step s' ys := by
  induction xs generalizing s with
  | nil => simp only [runM] at h; cases h; rfl
  | cons o rest ih =>
    simp only [List.cons_append, runM] at h ⊢
    cases ho : step s o with
    | error e => rw [ho] at h; cases h
    | ok s1 => rw [ho] at h; simp only at h ⊢; exact ih s1 h

/-! ### C04 -/

structure RelA (m : MSt) (s : ASt) : Prop where
  owner : s.owner = ownerObs m.l.step
  count : s.count = (if m.l.step = .none then 0 else m.depth + 1)
  hand : s.inHandler = m.run
  closed : ∀ n ∈ s.closed, n ∉ m.socks ∧ n ∈ m.used
  cancelled : ∀ n ∈ s.cancelled, n ∉ m.todos

theorem relA_init : RelA {} {} :=
  ⟨rfl, rfl, rfl, (by intro n h; cases h), (by intro n h; cases h)⟩

theorem evOf_acq {l : L} (h : isAcq l = true) :
    evOf l = [.ev (tidOf l) .lockStep] ∨ evOf l = [.ev (tidOf l) .tryStepOk] := by
  cases l <;> simp [isAcq] at h <;> simp [evOf, tidOf]

theorem evOf_unlock {l : L} (h : isUnlock l = true) : evOf l = [.ev (tidOf l) .unlockStep] := by
  cases l <;> simp [isUnlock] at h <;> simp [evOf, tidOf]

theorem stepA_evOf_other (c04 : Bool) (s : ASt) {l : L} (ha : isAcq l = false) (hu : isUnlock l = false) :
    runM (stepA c04) s (evOf l) = .ok s := by
  cases l <;> first | rfl | (simp [isAcq] at ha; done) | (simp [isUnlock] at hu; done)

theorem ownerObs_none {o : Owner} : ownerObs o = none ↔ o = .none := by
  cases o <;> simp [ownerObs]

theorem mem_filter_ne {n x : Name} {l : List Name} : x ∈ l.filter (· ≠ n) ↔ x ∈ l ∧ x ≠ n := by
  simp [List.mem_filter]

/-- the data part of `RelA` after a management call returned on thread `tid` -/
theorem relA_mutate (c04 : Bool) {m : MSt} {s : ASt} (hr : RelA m s) (tid : Nat) (n : Name) (a : Act)
    (hq : tid ≠ 0 → m.run = none) :
    ∃ s', stepA c04 s (.ev tid (.endAct n a)) = .ok s' ∧ RelA (mutate a n m) s' := by
  have hh := hr.hand
  cases a with
  | attach =>
    refine ⟨s, rfl, ?_⟩
    simp only [mutate]
    split
    · exact hr
    · rename_i hc
      refine ⟨hr.owner, hr.count, hr.hand, ?_, hr.cancelled⟩
      intro x hx
      have := hr.closed x hx
      refine ⟨?_, List.mem_cons_of_mem _ this.2⟩
      intro hm
      rcases List.mem_cons.mp hm with rfl | hm
      · exact hc (by simpa using this.2)
      · exact this.1 hm
  | close =>
    by_cases ht : tid = 0
    · refine ⟨s, by simp [stepA, ht], ?_⟩
      refine ⟨hr.owner, hr.count, hr.hand, ?_, hr.cancelled⟩
      intro x hx
      have := hr.closed x hx
      exact ⟨fun hm => this.1 (mem_filter_ne.mp hm).1, List.mem_cons_of_mem _ this.2⟩
    · have hq' := hq ht
      refine ⟨{ s with closed := n :: s.closed }, by simp [stepA, ht, hh, hq'], ?_⟩
      refine ⟨hr.owner, hr.count, hr.hand, ?_, hr.cancelled⟩
      intro x hx
      simp only [mutate]
      rcases List.mem_cons.mp hx with rfl | hx
      · exact ⟨fun hm => (mem_filter_ne.mp hm).2 rfl, List.mem_cons_self⟩
      · have := hr.closed x hx
        exact ⟨fun hm => this.1 (mem_filter_ne.mp hm).1, List.mem_cons_of_mem _ this.2⟩
  | cancel =>
    by_cases ht : tid = 0
    · refine ⟨s, by simp [stepA, ht], ?_⟩
      refine ⟨hr.owner, hr.count, hr.hand, hr.closed, ?_⟩
      intro x hx hm
      exact hr.cancelled x hx (mem_filter_ne.mp hm).1
    · have hq' := hq ht
      refine ⟨{ s with cancelled := n :: s.cancelled }, by simp [stepA, ht, hh, hq'], ?_⟩
      refine ⟨hr.owner, hr.count, hr.hand, hr.closed, ?_⟩
      intro x hx hm
      simp only [mutate] at hm
      rcases List.mem_cons.mp hx with rfl | hx
      · exact (mem_filter_ne.mp hm).2 rfl
      · exact hr.cancelled x hx (mem_filter_ne.mp hm).1
  | shift =>
    refine ⟨{ s with cancelled := s.cancelled.filter (· ≠ n) }, by simp [stepA], ?_⟩
    refine ⟨hr.owner, hr.count, hr.hand, hr.closed, ?_⟩
    intro x hx hm
    simp only [mutate] at hm
    have hx' := mem_filter_ne.mp hx
    rcases List.mem_cons.mp hm with rfl | hm
    · exact hx'.2 rfl
    · exact hr.cancelled x hx'.1 (mem_filter_ne.mp hm).1
  | todo =>
    refine ⟨{ s with cancelled := s.cancelled.filter (· ≠ n) }, by simp [stepA], ?_⟩
    refine ⟨hr.owner, hr.count, hr.hand, hr.closed, ?_⟩
    intro x hx hm
    simp only [mutate] at hm
    have hx' := mem_filter_ne.mp hx
    rcases List.mem_cons.mp hm with rfl | hm
    · exact hx'.2 rfl
    · exact hr.cancelled x hx'.1 (mem_filter_ne.mp hm).1
  | other => exact ⟨s, rfl, hr⟩

theorem relA_setl {m : MSt} {s : ASt} (hr : RelA m s) (l' : St) (hs : l'.step = m.l.step) :
    RelA { m with l := l' } s :=
  ⟨by rw [hr.owner]; simp only [hs], by rw [hr.count]; simp only [hs], hr.hand, hr.closed, hr.cancelled⟩

theorem stepA_ok (c04 : Bool) {m : MSt} {s : ASt} (hi : MInv m) (hr : RelA m s) (op : MOp) :
    ∃ s', runM (stepA c04) s (modelStep m op).2 = .ok s' ∧ RelA (modelStep m op).1 s' := by
  cases op with
  | tr l =>
    simp only [modelStep]
    split
    · exact ⟨s, rfl, hr⟩
    · rename_i hg
      split
      · rename_i l' ha
        simp only
        cases hacq : isAcq l with
        | true =>
          obtain ⟨h1, h2⟩ := apply_acq ha hacq
          have hown : s.owner = none := by rw [hr.owner, h1]; rfl
          have hd : m.depth = 0 := hi.depth0 h1
          have hne : l'.step ≠ .none := by intro h; rw [h] at h2; cases h2
          refine ⟨{ s with owner := some (tidOf l), count := 1 }, ?_, ?_⟩
          · rcases evOf_acq hacq with he | he <;> rw [he] <;> simp [runM, stepA, hown]
          · exact ⟨h2.symm, by simp [hne, hd], hr.hand, hr.closed, hr.cancelled⟩
        | false =>
          cases hul : isUnlock l with
          | true =>
            obtain ⟨h1, h2⟩ := apply_unlock hi.reach ha hul
            have hd : m.depth = 0 := by
              cases hd : m.depth with
              | zero => rfl
              | succ k => exact absurd (Or.inr ⟨hul, by omega⟩) hg
            have hne : m.l.step ≠ .none := by intro h; rw [h] at h1; cases h1
            have hown : s.owner = some (tidOf l) := by rw [hr.owner, h1]
            have hcnt : s.count = 1 := by rw [hr.count]; simp [hne, hd]
            refine ⟨{ s with owner := none, count := 0 }, ?_, ?_⟩
            · rw [evOf_unlock hul]; simp [runM, stepA, hown, hcnt]
            · exact ⟨by simp only [h2]; rfl, by simp [h2], hr.hand, hr.closed, hr.cancelled⟩
          | false =>
            exact ⟨s, stepA_evOf_other c04 s hacq hul, relA_setl hr l' (apply_step_same ha hacq hul)⟩
      · exact ⟨s, rfl, hr⟩
  | ret t n a =>
    simp only [modelStep]
    split
    · exact ⟨s, rfl, hr⟩
    · rename_i hd
      have hd : m.depth = 0 := by omega
      split
      · rename_i l' ha
        obtain ⟨hc, hs', _, _⟩ := uUnlock_some ha
        have hq := hi.crit_quiet hc
        have hstep : m.l.step = .usr t := ((inv_reach hi.reach).stepU t).mp (by rw [hc]; rfl)
        have hown : s.owner = some (t + 1) := by rw [hr.owner, hstep]; rfl
        have hcnt : s.count = 1 := by rw [hr.count]; simp [hstep, hd]
        have hr1 : RelA { m with l := l' } { s with owner := none, count := 0 } :=
          ⟨by simp only [hs']; rfl, by simp [hs'], hr.hand, hr.closed, hr.cancelled⟩
        obtain ⟨s2, h2, hr2⟩ := relA_mutate c04 hr1 (t + 1) n a (fun _ => hq)
        refine ⟨s2, ?_, hr2⟩
        simp only [runM]
        have : stepA c04 s (.ev (t + 1) .unlockStep) = .ok { s with owner := none, count := 0 } := by
          simp [stepA, hown, hcnt]
        rw [this]; simp only; rw [h2]
      · exact ⟨s, rfl, hr⟩
  | retry tid =>
    simp only [modelStep]
    split
    · rename_i ho
      have hown : s.owner = some tid := by rw [hr.owner, ho]
      have hne : m.l.step ≠ .none := by intro h; rw [h] at ho; cases ho
      refine ⟨{ s with count := s.count + 1 }, by simp [runM, stepA, hown], ?_⟩
      exact ⟨hr.owner, by simp [hr.count, hne], hr.hand, hr.closed, hr.cancelled⟩
    · exact ⟨s, rfl, hr⟩
  | reunlock tid =>
    simp only [modelStep]
    split
    · rename_i ho
      have hown : s.owner = some tid := by rw [hr.owner, ho.1]
      have hne : m.l.step ≠ .none := by intro h; rw [h] at ho; cases ho.1
      have hcnt : s.count = m.depth + 1 := by rw [hr.count]; simp [hne]
      have hd := ho.2
      refine ⟨{ s with count := s.count - 1 }, ?_, ?_⟩
      · have : ¬ s.count ≤ 1 := by omega
        simp [runM, stepA, hown, this]
      · exact ⟨hr.owner, by simp [hne, hcnt]; omega, hr.hand, hr.closed, hr.cancelled⟩
    · exact ⟨s, rfl, hr⟩
  | enter k n =>
    simp only [modelStep]
    split
    · rename_i hg
      obtain ⟨h1, h2, h3⟩ := hg
      have hstep : m.l.step = .drv := (inv_reach hi.reach).stepD.mp (region_owns h2)
      have hown : s.owner = some 0 := by rw [hr.owner, hstep]; rfl
      have hrun : m.run = none := by cases hx : m.run with | none => rfl | some x => rw [hx] at h1; cases h1
      have hh : s.inHandler = none := by rw [hr.hand, hrun]
      have hcheck : enterCheck s 0 k n = none := by
        simp only [enterCheck, hown, hh]
        cases k with
        | handler =>
          have hn : n ∉ s.closed := by
            intro hc
            have := (hr.closed n hc).1
            simp [listed] at h3; exact this h3
          simp [hn]
        | task =>
          have hn : n ∉ s.cancelled := by
            intro hc
            have := hr.cancelled n hc
            simp [listed] at h3; exact this h3
          simp [hn]
      refine ⟨{ s with inHandler := some (k, n) }, ?_, ?_⟩
      · simp only [runM, stepA, hcheck]; cases c04 <;> rfl
      · refine ⟨hr.owner, hr.count, rfl, hr.closed, ?_⟩
        intro x hx hm
        simp only at hm
        split at hm
        · exact hr.cancelled x hx (mem_filter_ne.mp hm).1
        · exact hr.cancelled x hx hm
    · exact ⟨s, rfl, hr⟩
  | exit =>
    simp only [modelStep]
    split
    · exact ⟨{ s with inHandler := none }, rfl, ⟨hr.owner, hr.count, rfl, hr.closed, hr.cancelled⟩⟩
    · exact ⟨s, rfl, hr⟩
  | dret n a =>
    simp only [modelStep]
    split
    · obtain ⟨s2, h2, hr2⟩ := relA_mutate c04 hr 0 n a (fun h => absurd rfl h)
      exact ⟨s2, by simp only [runM, h2], hr2⟩
    · exact ⟨s, rfl, hr⟩
  | done =>
    simp only [modelStep]
    split
    · exact ⟨s, rfl, hr⟩
    · exact ⟨s, rfl, hr⟩

/-! ### C05 -/

/-- steps the driver can still begin before it needs `pauseMtx` (the potential of `handover_at_most_one_step`) -/
def canBeginN : DPc → Nat
  | .idle | .r0 | .wantStep _ => 1
  | _ => 0

theorem canBeginN_le (d : DPc) : canBeginN d ≤ 1 := by cases d <;> simp [canBeginN]

def stoppingOk (l : St) (st : List Nat) : Prop := ∀ x : Nat, (x + 1) ∈ st ↔ l.u x = .stopBump

def bumpedOk (l : St) (b : List (Nat × Nat)) : Prop :=
  ∀ e ∈ b, ∃ t : Nat, e.1 = t + 1 ∧ l.u t = .waitStep ∧ e.2 + canBeginN l.d ≤ 1

structure RelB (m : MSt) (s : BSt) : Prop where
  stopping : stoppingOk m.l s.stopping
  bumped : bumpedOk m.l s.bumped

theorem relB_init : RelB {} {} :=
  ⟨by intro x; simp, by intro e h; cases h⟩

theorem stoppingOk_same {l l' : St} {st : List Nat} {t : Tid} (h : stoppingOk l st)
    (hu : ∀ x, x ≠ t → l'.u x = l.u x) (h1 : l.u t ≠ .stopBump) (h2 : l'.u t ≠ .stopBump) : stoppingOk l' st := by
  intro x
  by_cases hx : x = t
  · subst hx; rw [h x]; exact ⟨fun a => absurd a h1, fun a => absurd a h2⟩
  · rw [h x, hu x hx]

theorem stoppingOk_eq {l l' : St} {st : List Nat} (h : stoppingOk l st) (hu : l'.u = l.u) : stoppingOk l' st := by
  intro x; rw [h x, hu]

theorem bumpedOk_drv {l l' : St} {b : List (Nat × Nat)} (h : bumpedOk l b) (hu : l'.u = l.u)
    (hd : canBeginN l'.d ≤ canBeginN l.d) : bumpedOk l' b := by
  intro e he
  obtain ⟨t, h1, h2, h3⟩ := h e he
  exact ⟨t, h1, by rw [hu]; exact h2, by omega⟩

theorem bumpedOk_user {l l' : St} {b : List (Nat × Nat)} {t : Tid} (h : bumpedOk l b) (hd : l'.d = l.d)
    (hu : ∀ x, x ≠ t → l'.u x = l.u x) (hne : ∀ e ∈ b, e.1 ≠ t + 1) : bumpedOk l' b := by
  intro e he
  obtain ⟨x, h1, h2, h3⟩ := h e he
  have hx : x ≠ t := by intro hxt; subst hxt; exact hne e he h1
  exact ⟨x, h1, by rw [hu x hx]; exact h2, by rw [hd]; exact h3⟩

theorem bumpedOk_ne {l : St} {b : List (Nat × Nat)} {t : Tid} (h : bumpedOk l b) (hn : l.u t ≠ .waitStep) :
    ∀ e ∈ b, e.1 ≠ t + 1 := by
  intro e he hx
  obtain ⟨x, h1, h2, _⟩ := h e he
  have : x = t := by omega
  subst this; exact hn h2

theorem bumpedOk_filter {l : St} {b : List (Nat × Nat)} (p : Nat × Nat → Bool) (h : bumpedOk l b) :
    bumpedOk l (b.filter p) := fun e he => h e (List.mem_filter.mp he).1

theorem filter_ne_self {b : List (Nat × Nat)} {k : Nat} (h : ∀ e ∈ b, e.1 ≠ k) :
    b.filter (fun p => !decide (p.1 = k)) = b := by
  apply List.filter_eq_self.mpr
  intro e he; simpa using h e he

/-- no caller waits after its datagram while the driver holds `pauseMtx` -/
theorem bumped_nil_of_holdPause {l : St} {b : List (Nat × Nat)} {r : Bool} (hr : Reach l) (h : bumpedOk l b)
    (hd : l.d = .holdPause r) : b = [] := by
  cases b with
  | nil => rfl
  | cons e rest =>
    obtain ⟨t, _, h2, _⟩ := h e List.mem_cons_self
    have inv := inv_reach hr
    have h3 := (inv.pauseU t).mp (by rw [h2]; rfl)
    have h4 := inv.pauseD.mp (by rw [hd]; rfl)
    rw [h3] at h4; cases h4

theorem stepB_other (c05 : Bool) (s : BSt) (t : Nat) : stepB c05 s (.ev t .other) = .ok s := rfl
theorem stepB_unlock (c05 : Bool) (s : BSt) (t : Nat) : stepB c05 s (.ev t .unlockStep) = .ok s := rfl

theorem stepB_ok_tr (c05 : Bool) {m : MSt} {s : BSt} (hi : MInv m) (hr : RelB m s) (l : L) (l' : St)
    (ha : apply m.l l = some l') :
    ∃ s', runM (stepB c05) s (evOf l) = .ok s' ∧ RelB { m with l := l' } s' := by
  obtain ⟨hst, hbu⟩ := hr
  cases l with
  | dRunEnter =>
    apply_cases ha; rename_i h1
    exact ⟨s, rfl, stoppingOk_eq hst rfl, bumpedOk_drv hbu rfl (by simp [h1, canBeginN])⟩
  | dRunExit =>
    apply_cases ha; rename_i h1
    exact ⟨s, rfl, stoppingOk_eq hst rfl, bumpedOk_drv hbu rfl (by simp [h1.1, canBeginN])⟩
  | dRunGo =>
    apply_cases ha; rename_i h1
    exact ⟨s, rfl, stoppingOk_eq hst rfl, bumpedOk_drv hbu rfl (by simp [h1.1, canBeginN])⟩
  | dStepEnter =>
    apply_cases ha; rename_i h1
    exact ⟨s, rfl, stoppingOk_eq hst rfl, bumpedOk_drv hbu rfl (by simp [h1, canBeginN])⟩
  | dLockStep =>
    apply_cases ha; rename_i r hd h1
    refine ⟨{ s with bumped := s.bumped.map (fun p => (p.1, p.2 + 1)) }, ?_, stoppingOk_eq hst rfl, ?_⟩
    · have hnone : (s.bumped.map (fun p => (p.1, p.2 + 1))).find? (fun p => decide (p.2 > 1)) = none := by
        rw [List.find?_eq_none]
        intro e he
        obtain ⟨e0, he0, rfl⟩ := List.mem_map.mp he
        obtain ⟨t, _, _, h3⟩ := hbu e0 he0
        rw [hd] at h3; simp [canBeginN] at h3
        simp [h3]
      simp only [evOf, runM, stepB, if_true, hnone]
      cases c05 <;> rfl
    · intro e he
      obtain ⟨e0, he0, rfl⟩ := List.mem_map.mp he
      obtain ⟨t, h1', h2, h3⟩ := hbu e0 he0
      rw [hd] at h3; simp [canBeginN] at h3
      exact ⟨t, h1', h2, by simp [canBeginN, h3]⟩
  | dToPoll =>
    apply_cases ha; rename_i r hd
    exact ⟨s, rfl, stoppingOk_eq hst rfl, bumpedOk_drv hbu rfl (by simp [hd, canBeginN])⟩
  | dPollPipe =>
    apply_cases ha; rename_i r hd h1
    exact ⟨s, rfl, stoppingOk_eq hst rfl, bumpedOk_drv hbu rfl (by simp [hd, canBeginN])⟩
  | dPollOther =>
    apply_cases ha; rename_i r hd h1
    exact ⟨s, rfl, stoppingOk_eq hst rfl, bumpedOk_drv hbu rfl (by simp [hd, canBeginN])⟩
  | dUnlockStep =>
    apply_cases ha; rename_i r hd
    exact ⟨s, rfl, stoppingOk_eq hst rfl, bumpedOk_drv hbu rfl (by simp [hd, canBeginN])⟩
  | dLockPause =>
    apply_cases ha; rename_i r hd h1
    exact ⟨s, rfl, stoppingOk_eq hst rfl, bumpedOk_drv hbu rfl (by simp [hd, canBeginN])⟩
  | dUnlockPause =>
    apply_cases ha <;> rename_i r hd _ <;>
    · have hnil := bumped_nil_of_holdPause hi.reach hbu hd
      refine ⟨s, rfl, stoppingOk_eq hst rfl, ?_⟩
      rw [hnil]; intro e he; cases he
  | dStop =>
    apply_cases ha
    exact ⟨s, rfl, stoppingOk_eq hst rfl, bumpedOk_drv hbu rfl (Nat.le_refl _)⟩
  | uTryOk t =>
    apply_cases ha; rename_i h1
    have hne := bumpedOk_ne hbu (t := t) (by rw [h1.1]; simp)
    refine ⟨s, ?_, stoppingOk_same hst (fun x hx => setU_other _ _ _ _ hx) (by rw [h1.1]; simp) (by simp),
      bumpedOk_user hbu rfl (fun x hx => setU_other _ _ _ _ hx) hne⟩
    simp [evOf, runM, stepB, filter_ne_self hne]
  | uTryFail t =>
    apply_cases ha; rename_i h1
    have hne := bumpedOk_ne hbu (t := t) (by rw [h1.1]; simp)
    exact ⟨s, rfl, stoppingOk_same hst (fun x hx => setU_other _ _ _ _ hx) (by rw [h1.1]; simp) (by simp),
      bumpedOk_user hbu rfl (fun x hx => setU_other _ _ _ _ hx) hne⟩
  | uLockPause t =>
    apply_cases ha; rename_i h1
    have hne := bumpedOk_ne hbu (t := t) (by rw [h1.1]; simp)
    exact ⟨s, rfl, stoppingOk_same hst (fun x hx => setU_other _ _ _ _ hx) (by rw [h1.1]; simp) (by simp),
      bumpedOk_user hbu rfl (fun x hx => setU_other _ _ _ _ hx) hne⟩
  | uBump t =>
    apply_cases ha; rename_i h1
    have hne := bumpedOk_ne hbu (t := t) (by rw [h1]; simp)
    have hns : t + 1 ∉ s.stopping := by
      intro hc; have := (hst t).mp hc; rw [h1] at this; cases this
    refine ⟨{ s with bumped := s.bumped ++ [(t + 1, 0)] }, by simp [evOf, runM, stepB, hns],
      stoppingOk_same hst (fun x hx => setU_other _ _ _ _ hx) (by rw [h1]; simp) (by simp), ?_⟩
    intro e he
    rcases List.mem_append.mp he with he | he
    · exact (bumpedOk_user hbu rfl (fun x hx => setU_other _ _ _ _ hx) hne :
        bumpedOk ({ m.l with pipe := m.l.pipe + 1 }.setU t .waitStep) s.bumped) e he
    · simp at he; subst he
      exact ⟨t, rfl, by simp, by have := canBeginN_le m.l.d; simpa using this⟩
  | uLockStep t =>
    apply_cases ha; rename_i h1
    refine ⟨{ s with bumped := s.bumped.filter (fun p => p.1 ≠ t + 1) }, by simp [evOf, runM, stepB],
      stoppingOk_same hst (fun x hx => setU_other _ _ _ _ hx) (by rw [h1.1]; simp) (by simp), ?_⟩
    refine bumpedOk_user (bumpedOk_filter _ hbu) rfl (fun x hx => setU_other _ _ _ _ hx) ?_
    intro e he; simpa using (List.mem_filter.mp he).2
  | uRelPause t =>
    apply_cases ha; rename_i h1
    have hne := bumpedOk_ne hbu (t := t) (by rw [h1]; simp)
    exact ⟨s, rfl, stoppingOk_same hst (fun x hx => setU_other _ _ _ _ hx) (by rw [h1]; simp) (by simp),
      bumpedOk_user hbu rfl (fun x hx => setU_other _ _ _ _ hx) hne⟩
  | uUnlock t =>
    apply_cases ha; rename_i h1
    have hne := bumpedOk_ne hbu (t := t) (by rw [h1]; simp)
    exact ⟨s, rfl, stoppingOk_same hst (fun x hx => setU_other _ _ _ _ hx) (by rw [h1]; simp) (by simp),
      bumpedOk_user hbu rfl (fun x hx => setU_other _ _ _ _ hx) hne⟩
  | uStopSet t =>
    apply_cases ha; rename_i h1
    have hne := bumpedOk_ne hbu (t := t) (by rw [h1]; simp)
    refine ⟨{ s with stopping := (t + 1) :: s.stopping }, by simp [evOf, runM, stepB], ?_,
      bumpedOk_user hbu rfl (fun x hx => setU_other _ _ _ _ hx) hne⟩
    intro x
    by_cases hx : x = t
    · subst hx; simp
    · simp only [List.mem_cons, setU_other _ _ _ _ hx]
      rw [← hst x]
      constructor
      · rintro (h | h)
        · omega
        · exact h
      · exact Or.inr
  | uStopBump t =>
    apply_cases ha; rename_i h1
    have hne := bumpedOk_ne hbu (t := t) (by rw [h1]; simp)
    have hin : t + 1 ∈ s.stopping := (hst t).mpr h1
    refine ⟨{ s with stopping := s.stopping.filter (· ≠ t + 1) }, by simp [evOf, runM, stepB, hin], ?_,
      bumpedOk_user hbu rfl (fun x hx => setU_other _ _ _ _ hx) hne⟩
    intro x
    by_cases hx : x = t
    · subst hx; simp
    · simp only [setU_other _ _ _ _ hx]
      rw [← hst x]
      simp [List.mem_filter]
      omega

theorem relB_of_l {m m' : MSt} {s : BSt} (h : RelB m s) (hl : m'.l = m.l) : RelB m' s :=
  ⟨(by rw [hl]; exact h.stopping), (by rw [hl]; exact h.bumped)⟩

theorem stepB_ok (c05 : Bool) {m : MSt} {s : BSt} (hi : MInv m) (hr : RelB m s) (op : MOp) :
    ∃ s', runM (stepB c05) s (modelStep m op).2 = .ok s' ∧ RelB (modelStep m op).1 s' := by
  cases op with
  | tr l =>
    simp only [modelStep]
    split
    · exact ⟨s, rfl, hr⟩
    · split
      · rename_i l' ha
        exact stepB_ok_tr c05 hi hr l l' ha
      · exact ⟨s, rfl, hr⟩
  | ret t n a =>
    simp only [modelStep]
    split
    · exact ⟨s, rfl, hr⟩
    · split
      · rename_i l' ha
        obtain ⟨s1, h1, hr1⟩ := stepB_ok_tr c05 hi hr (.uUnlock t) l' ha
        have : s1 = s := by
          have h2 : runM (stepB c05) s (evOf (.uUnlock t)) = .ok s := rfl
          rw [h2] at h1; cases h1; rfl
        subst this
        exact ⟨s1, rfl, relB_of_l hr1 (mutate_l a n _)⟩
      · exact ⟨s, rfl, hr⟩
  | retry tid =>
    simp only [modelStep]
    split
    · by_cases ht : tid = 0
      · subst ht; exact ⟨s, rfl, relB_of_l hr rfl⟩
      · refine ⟨{ s with bumped := s.bumped.filter (fun p => p.1 ≠ tid) }, by simp [runM, stepB, ht], ?_⟩
        exact ⟨hr.stopping, bumpedOk_filter _ hr.bumped⟩
    · exact ⟨s, rfl, hr⟩
  | reunlock tid =>
    simp only [modelStep]
    split
    · exact ⟨s, rfl, relB_of_l hr rfl⟩
    · exact ⟨s, rfl, hr⟩
  | enter k n =>
    simp only [modelStep]
    split
    · exact ⟨s, rfl, relB_of_l hr rfl⟩
    · exact ⟨s, rfl, hr⟩
  | exit =>
    simp only [modelStep]
    split
    · exact ⟨s, rfl, relB_of_l hr rfl⟩
    · exact ⟨s, rfl, hr⟩
  | dret n a =>
    simp only [modelStep]
    split
    · exact ⟨s, rfl, relB_of_l hr (mutate_l a n _)⟩
    · exact ⟨s, rfl, hr⟩
  | done =>
    simp only [modelStep]
    split
    · exact ⟨s, rfl, hr⟩
    · exact ⟨s, rfl, hr⟩

/-! ### C08 -/

/-- steps `Run` can still begin without testing the stop flag (the potential of `stop_at_most_one_step`) -/
def runCanBeginN : DPc → Nat
  | .wantStep true => 1
  | _ => 0

theorem runCanBeginN_le (d : DPc) : runCanBeginN d ≤ 1 := by
  cases d with
  | wantStep r => cases r <;> simp [runCanBeginN]
  | _ => simp [runCanBeginN]

/-- the driver thread is inside `Run` -/
def isRunPc : DPc → Bool
  | .r0 => true
  | d => d.run?

structure RelC (m : MSt) (s : CSt) : Prop where
  begun : m.l.stop = true → s.stopBegun = true
  pend : s.pendingStops ≠ [] → m.l.stop = true
  sdone : s.stopDone = true → m.l.stop = true
  inRun : s.inRun = isRunPc m.l.d
  le1 : s.stepsSinceStop ≤ 1
  pot : s.stopDone = true → s.inRun = true → s.stepsSinceStop + runCanBeginN m.l.d ≤ 1

theorem relC_init : RelC {} {} :=
  ⟨(by intro h; cases h), (by intro h; exact absurd rfl h), (by intro h; cases h), rfl, Nat.zero_le _,
   (by intro h; cases h)⟩

/-- a transition that changes neither the flag nor the driver's pc, with events `stepC` ignores -/
theorem relC_same {m : MSt} {s : CSt} (hr : RelC m s) (l' : St) (hs : l'.stop = m.l.stop) (hd : l'.d = m.l.d) :
    RelC { m with l := l' } s :=
  ⟨(by simp only [hs]; exact hr.begun), (by simp only [hs]; exact hr.pend), (by simp only [hs]; exact hr.sdone),
   (by simp only [hd]; exact hr.inRun), hr.le1, (by simp only [hd]; exact hr.pot)⟩

/-- the driver moves on inside a step: same flag, same side of `Run`, no step can begin without the test -/
theorem relC_drv {m : MSt} {s : CSt} (hr : RelC m s) (l' : St) (hs : l'.stop = m.l.stop)
    (hd : isRunPc l'.d = isRunPc m.l.d) (hc : runCanBeginN l'.d = 0) : RelC { m with l := l' } s :=
  ⟨(by simp only [hs]; exact hr.begun), (by simp only [hs]; exact hr.pend), (by simp only [hs]; exact hr.sdone),
   (by simp only [hd]; exact hr.inRun), hr.le1, (by intro _ _; simp only [hc]; exact hr.le1)⟩

theorem stepC_ok_tr (c08 : Bool) {m : MSt} {s : CSt} (hr : RelC m s) (l : L) (l' : St)
    (ha : apply m.l l = some l') :
    ∃ s', runM (stepC c08) s (evOf l) = .ok s' ∧ RelC { m with l := l' } s' := by
  cases l with
  | dRunEnter =>
    apply_cases ha; rename_i h1
    refine ⟨{ s with inRun := true, stepsSinceStop := 0 }, rfl, ?_⟩
    exact ⟨hr.begun, hr.pend, hr.sdone, rfl, Nat.zero_le _, (by intro _ _; simp [runCanBeginN])⟩
  | dRunExit =>
    apply_cases ha; rename_i h1
    have hb := hr.begun h1.2
    refine ⟨{ s with runExited := true, stopDone := false, stopBegun := false, stepsSinceStop := 0,
                     pendingStops := [], inRun := false }, by simp [evOf, runM, stepC, hb], ?_⟩
    exact ⟨(by intro h; cases h), (by intro h; exact absurd rfl h), (by intro h; cases h), rfl, Nat.zero_le _,
      (by intro h; cases h)⟩
  | dRunGo =>
    apply_cases ha; rename_i h1
    refine ⟨s, rfl, ?_⟩
    refine ⟨hr.begun, hr.pend, hr.sdone, (by rw [hr.inRun, h1.1]; rfl), hr.le1, ?_⟩
    intro hd; have := hr.sdone hd; rw [h1.2] at this; cases this
  | dStepEnter =>
    apply_cases ha; rename_i h1
    exact ⟨s, rfl, relC_drv hr _ rfl (by rw [h1]; rfl) rfl⟩
  | dLockStep =>
    apply_cases ha; rename_i r hd h1
    have hin : s.inRun = r := by rw [hr.inRun, hd]; rfl
    have hk : (if s.stopDone = true ∧ s.inRun = true then s.stepsSinceStop + 1 else s.stepsSinceStop) ≤ 1 := by
      split
      · rename_i hc
        have := hr.pot hc.1 hc.2
        have hr' : r = true := by rw [← hin]; exact hc.2
        rw [hd, hr'] at this; simp [runCanBeginN] at this; omega
      · exact hr.le1
    refine ⟨{ s with stepsSinceStop := if s.stopDone = true ∧ s.inRun = true then s.stepsSinceStop + 1
                                      else s.stepsSinceStop }, ?_, ?_⟩
    · have : ¬ (if s.stopDone = true ∧ s.inRun = true then s.stepsSinceStop + 1 else s.stepsSinceStop) > 1 := by omega
      simp only [evOf, runM, stepC, if_true, this, and_false, if_false]
    · exact ⟨hr.begun, hr.pend, hr.sdone, (by rw [hin]; rfl), hk, (by intro _ _; simpa [runCanBeginN] using hk)⟩
  | dToPoll =>
    apply_cases ha; rename_i r hd
    exact ⟨s, rfl, relC_drv hr _ rfl (by rw [hd]; rfl) rfl⟩
  | dPollPipe =>
    apply_cases ha; rename_i r hd h1
    exact ⟨s, rfl, relC_drv hr _ rfl (by rw [hd]; rfl) rfl⟩
  | dPollOther =>
    apply_cases ha; rename_i r hd h1
    exact ⟨s, rfl, relC_drv hr _ rfl (by rw [hd]; rfl) rfl⟩
  | dUnlockStep =>
    apply_cases ha; rename_i r hd
    exact ⟨s, rfl, relC_drv hr _ rfl (by rw [hd]; rfl) rfl⟩
  | dLockPause =>
    apply_cases ha; rename_i r hd h1
    exact ⟨s, rfl, relC_drv hr _ rfl (by rw [hd]; rfl) rfl⟩
  | dUnlockPause =>
    apply_cases ha <;> rename_i r hd hr' <;>
    · exact ⟨s, rfl, relC_drv hr _ rfl (by rw [hd]; simp [isRunPc, DPc.run?, hr']) (by simp [runCanBeginN])⟩
  | dStop =>
    apply_cases ha
    refine ⟨{ s with stopBegun := true, pendingStops := 0 :: s.pendingStops, stopDone := true,
                     stepsSinceStop := 0 }, by simp [evOf, runM, stepC], ?_⟩
    exact ⟨fun _ => rfl, fun _ => rfl, fun _ => rfl, hr.inRun, Nat.zero_le _,
      (by intro _ _; simpa using runCanBeginN_le m.l.d)⟩
  | uTryOk t => apply_cases ha; exact ⟨s, rfl, relC_same hr _ rfl rfl⟩
  | uTryFail t => apply_cases ha; exact ⟨s, rfl, relC_same hr _ rfl rfl⟩
  | uLockPause t => apply_cases ha; exact ⟨s, rfl, relC_same hr _ rfl rfl⟩
  | uBump t => apply_cases ha; exact ⟨s, rfl, relC_same hr _ rfl rfl⟩
  | uLockStep t => apply_cases ha; exact ⟨s, by simp [evOf, runM, stepC], relC_same hr _ rfl rfl⟩
  | uRelPause t => apply_cases ha; exact ⟨s, rfl, relC_same hr _ rfl rfl⟩
  | uUnlock t => apply_cases ha; exact ⟨s, rfl, relC_same hr _ rfl rfl⟩
  | uStopSet t =>
    apply_cases ha
    refine ⟨{ s with stopBegun := true, pendingStops := (t + 1) :: s.pendingStops }, rfl, ?_⟩
    exact ⟨fun _ => rfl, fun _ => rfl, fun _ => rfl, hr.inRun, hr.le1, hr.pot⟩
  | uStopBump t =>
    apply_cases ha
    by_cases hp : s.pendingStops.contains (t + 1) = true
    · refine ⟨{ s with stopDone := true, stepsSinceStop := 0 }, by simp only [evOf, runM, stepC, hp]; rfl, ?_⟩
      have hst : m.l.stop = true := hr.pend (by intro h; rw [h] at hp; cases hp)
      exact ⟨hr.begun, hr.pend, fun _ => hst, hr.inRun, Nat.zero_le _,
        (by intro _ _; simpa using runCanBeginN_le m.l.d)⟩
    · refine ⟨s, by simp only [evOf, runM, stepC, hp]; rfl, relC_same hr _ rfl rfl⟩

theorem relC_of_l {m m' : MSt} {s : CSt} (h : RelC m s) (hl : m'.l = m.l) : RelC m' s :=
  ⟨(by rw [hl]; exact h.begun), (by rw [hl]; exact h.pend), (by rw [hl]; exact h.sdone), (by rw [hl]; exact h.inRun),
   h.le1, (by rw [hl]; exact h.pot)⟩

theorem stepC_ok (c08 : Bool) {m : MSt} {s : CSt} (hr : RelC m s) (op : MOp) :
    ∃ s', runM (stepC c08) s (modelStep m op).2 = .ok s' ∧ RelC (modelStep m op).1 s' := by
  cases op with
  | tr l =>
    simp only [modelStep]
    split
    · exact ⟨s, rfl, hr⟩
    · split
      · rename_i l' ha
        exact stepC_ok_tr c08 hr l l' ha
      · exact ⟨s, rfl, hr⟩
  | ret t n a =>
    simp only [modelStep]
    split
    · exact ⟨s, rfl, hr⟩
    · split
      · rename_i l' ha
        obtain ⟨_, _, hd, hs⟩ := uUnlock_some ha
        exact ⟨s, rfl, relC_of_l (relC_same hr l' hs hd) (mutate_l a n _)⟩
      · exact ⟨s, rfl, hr⟩
  | retry tid =>
    simp only [modelStep]
    split
    · exact ⟨s, rfl, relC_of_l hr rfl⟩
    · exact ⟨s, rfl, hr⟩
  | reunlock tid =>
    simp only [modelStep]
    split
    · exact ⟨s, rfl, relC_of_l hr rfl⟩
    · exact ⟨s, rfl, hr⟩
  | enter k n =>
    simp only [modelStep]
    split
    · exact ⟨s, rfl, relC_of_l hr rfl⟩
    · exact ⟨s, rfl, hr⟩
  | exit =>
    simp only [modelStep]
    split
    · exact ⟨s, rfl, relC_of_l hr rfl⟩
    · exact ⟨s, rfl, hr⟩
  | dret n a =>
    simp only [modelStep]
    split
    · exact ⟨s, rfl, relC_of_l hr (mutate_l a n _)⟩
    · exact ⟨s, rfl, hr⟩
  | done =>
    simp only [modelStep]
    split
    · rename_i hd
      refine ⟨s, ?_, hr⟩
      have : s.inRun = false := by rw [hr.inRun, hd]; rfl
      simp [runM, stepC, this]
    · exact ⟨s, rfl, hr⟩

/-! ### the three monitors together -/

def Obs.isFail : Obs → Bool
  | .deadlock _ | .stuck _ | .crash _ => true
  | _ => false

theorem specStep_of_steps (md : Mode) (s : SpecSt) (o : Obs) (hf : o.isFail = false) {a : ASt} {b : BSt} {c : CSt}
    (ha : stepA md.c04 s.a o = .ok a) (hb : stepB md.c05 s.b o = .ok b) (hc : stepC md.c08 s.c o = .ok c) :
    specStep md s o = .ok ⟨a, b, c⟩ := by
  cases o with
  | deadlock x => cases hf
  | stuck x => cases hf
  | crash x => cases hf
  | ev t e => simp only [specStep, ha, hb, hc]
  | done => simp only [specStep, ha, hb, hc]

theorem specRun_of_runM (md : Mode) (obs : List Obs) (hf : ∀ o ∈ obs, o.isFail = false) (s : SpecSt)
    {a : ASt} {b : BSt} {c : CSt} (ha : runM (stepA md.c04) s.a obs = .ok a)
    (hb : runM (stepB md.c05) s.b obs = .ok b) (hc : runM (stepC md.c08) s.c obs = .ok c) :
    specRun md s obs = .ok ⟨a, b, c⟩ := by
  induction obs generalizing s with
  | nil =>
    simp only [runM] at ha hb hc
    cases ha; cases hb; cases hc; rfl
  | cons o rest ih =>
    simp only [runM] at ha hb hc
    cases ha1 : stepA md.c04 s.a o with
    | error e => rw [ha1] at ha; cases ha
    | ok a1 =>
      cases hb1 : stepB md.c05 s.b o with
      | error e => rw [hb1] at hb; cases hb
      | ok b1 =>
        cases hc1 : stepC md.c08 s.c o with
        | error e => rw [hc1] at hc; cases hc
        | ok c1 =>
          rw [ha1] at ha; rw [hb1] at hb; rw [hc1] at hc
          simp only [specRun, specStep_of_steps md s o (hf o List.mem_cons_self) ha1 hb1 hc1]
          exact ih (fun o ho => hf o (List.mem_cons_of_mem _ ho)) ⟨a1, b1, c1⟩ ha hb hc

theorem specRun_append (md : Mode) (s s' : SpecSt) (xs ys : List Obs) (h : specRun md s xs = .ok s') :
    specRun md s (xs ++ ys) = specRun md s' ys := by
  induction xs generalizing s with
  | nil => simp only [specRun] at h; cases h; rfl
  | cons o rest ih =>
    simp only [List.cons_append, specRun] at h ⊢
    cases ho : specStep md s o with
    | error e => rw [ho] at h; cases h
    | ok s1 => rw [ho] at h; simp only at h ⊢; exact ih s1 h

theorem evOf_noFail (l : L) : ∀ o ∈ evOf l, o.isFail = false := by
  cases l <;> simp [evOf, Obs.isFail]

theorem modelStep_noFail (m : MSt) (op : MOp) : ∀ o ∈ (modelStep m op).2, o.isFail = false := by
  cases op with
  | tr l =>
    simp only [modelStep]
    split
    · intro o ho; cases ho
    · split
      · exact evOf_noFail l
      · intro o ho; cases ho
  | ret t n a =>
    simp only [modelStep]
    split
    · intro o ho; cases ho
    · split
      · intro o ho; simp at ho; rcases ho with rfl | rfl <;> rfl
      · intro o ho; cases ho
  | retry tid => simp only [modelStep]; split <;> intro o ho <;> simp at ho <;> subst ho <;> rfl
  | reunlock tid => simp only [modelStep]; split <;> intro o ho <;> simp at ho <;> subst ho <;> rfl
  | enter k n => simp only [modelStep]; split <;> intro o ho <;> simp at ho <;> subst ho <;> rfl
  | exit => simp only [modelStep]; split <;> intro o ho <;> simp at ho <;> subst ho <;> rfl
  | dret n a => simp only [modelStep]; split <;> intro o ho <;> simp at ho <;> subst ho <;> rfl
  | done => simp only [modelStep]; split <;> intro o ho <;> simp at ho <;> subst ho <;> rfl

/-- the simulation relation between the composed model and the observer's book-keeping -/
structure Rel (m : MSt) (s : SpecSt) : Prop where
  inv : MInv m
  a : RelA m s.a
  b : RelB m s.b
  c : RelC m s.c

theorem rel_init : Rel {} {} := ⟨minv_init, relA_init, relB_init, relC_init⟩

theorem step_ok (md : Mode) {m : MSt} {s : SpecSt} (h : Rel m s) (op : MOp) :
    ∃ s', specRun md s (modelStep m op).2 = .ok s' ∧ Rel (modelStep m op).1 s' := by
  obtain ⟨a, ha, ra⟩ := stepA_ok md.c04 h.inv h.a op
  obtain ⟨b, hb, rb⟩ := stepB_ok md.c05 h.inv h.b op
  obtain ⟨c, hc, rc⟩ := stepC_ok md.c08 h.c op
  exact ⟨⟨a, b, c⟩, specRun_of_runM md _ (modelStep_noFail m op) s ha hb hc, minv_step h.inv op, ra, rb, rc⟩

theorem run_ok (md : Mode) (history : List MOp) {m : MSt} {s : SpecSt} (h : Rel m s) :
    ∃ s', specRun md s (modelTrace m history) = .ok s' ∧ Rel (modelRun m history) s' := by
  induction history generalizing m s with
  | nil => exact ⟨s, rfl, h⟩
  | cons op rest ih =>
    obtain ⟨s1, h1, r1⟩ := step_ok md h op
    obtain ⟨s2, h2, r2⟩ := ih r1
    exact ⟨s2, by simp only [modelTrace]; rw [specRun_append md s s1 _ _ h1]; exact h2, r2⟩

/-- **The oracle is a theorem of the model.**  For every history of operations of any length - any
interleaving of transitions of the lock LTS by the driver thread and any number of user threads running any
programs, management calls returning, recursive acquisitions, handlers and tasks being invoked for registered
sockets / listed ToDos, management calls from inside them - the predicate that `./check C04`, `./check C05`
and `./check C08` evaluate on the implementation accepts the observations the model produces, in every
mode (also with all three clause sets switched on).  No hypothesis. -/
theorem model_satisfies_spec (md : Mode) (history : List MOp) :
    ∃ s, specRun md {} (modelTrace {} history) = .ok s := by
  obtain ⟨s, h, _⟩ := run_ok md history rel_init
  exact ⟨s, h⟩

/-- the verdict as a Boolean (for `example`s) -/
def accepts (md : Mode) (obs : List Obs) : Bool :=
  match specRun md {} obs with
  | .ok _ => true
  | .error _ => false

theorem model_accepted (md : Mode) (history : List MOp) : accepts md (modelTrace {} history) = true := by
  obtain ⟨s, h⟩ := model_satisfies_spec md history
  simp only [accepts, h]

end SockModel.Locks.Spec

import SockModel.Spec.C01
import SockModel.Spec.C06
import SockModel.Model.ToDosStepLemmas
/-!
# Spec.C07 - the timeout clauses as an executable predicate over typed observations, and the proof that
the model satisfies them for every history

Two transcripts feed `./check C07`, so there are two predicates:

* **blocking socket operations** (harness `sockops`, driver mode `C07s`; the same functions with the other
  mode flag are the predicate of C16, `Spec/C16.lean`): `specStepM` / `specRunM` over the typed observations
  of `Spec/C01.lean` (`Obs` = one operation line with the intercepted system calls and the result line).
  The clauses (`specTimeouts`): with `T < 0` only unlimited polls and never 'nothing'; with `T = 0` only
  zero polls and no time passes; with `T > 0` every poll argument is within `[0, T - elapsed]`, the
  operation blocks no longer than `T` in total and reports 'nothing' only at `start + T`.  The virtual time
  is *observed*: `adv t a` is what the interposed `poll(t)` answered with `a` let pass.
* **`Driver::Step`** (harness `todos`, driver mode `C06`; the file `Drive/C06.lean` serves C06 and C07):
  `Step.specStep` / `Step.specRun` over `Step.Obs` - per step the typed lines `begin`, `ran`, `poll`, `end`.
  The C07 clauses: exactly one socket wait per step, bounded by `T` for `T >= 0`, never unlimited and never
  past the due time of the earliest pending ToDo while one is pending, the full `T` when idle; together
  with the C06 clauses of the step (promptness, no task after the wait, monotone clock) and the reference
  scheduler of `Spec/C06.lean` for every `ran`.

`model_satisfies_specM` and `Step.model_satisfies_spec` (re-exported in `Props/C07.lean`): both predicates
accept every trace the model can produce.
-/
namespace SockModel.Spec.C07
open SockModel SockModel.SendLoop SockModel.Deadline
open SockModel.Spec.C01 (SysObs Thrown Ret OpObs Obs hasEintr hasPollFail hasIoFail anySend nosigBad)

/-! ## blocking socket operations: the predicate -/

/-- virtual milliseconds that pass in a `poll(t)` answered with `a` (A-POLL: an event later than the
timeout is a timeout; a timeout lasts `t` ms; a failure takes no time) -/
def adv (t : Int) : PollAns → Int
  | .ready d => if t ≥ 0 ∧ (d : Int) > t then t else d
  | .eintr d => if t ≥ 0 ∧ (d : Int) > t then t else d
  | .timedOut => if t > 0 then t else 0
  | .fail _ => 0

/-- the argument `t` of one `poll`, issued `elapsed` ms into an operation with timeout `T` -/
def pollClause (T elapsed t : Int) : Option String :=
  if T < 0 ∧ t ≥ 0 then some s!"unlimited operation issued a poll with timeout {t}"
  else if T = 0 ∧ t ≠ 0 then some s!"zero-timeout operation issued a poll with timeout {t} (blocks)"
  else if T > 0 ∧ (t < 0 ∨ t > T - elapsed) then
    some s!"operation with timeout {T} issued poll({t}) after {elapsed} ms: over budget"
  else none

/-- every poll of the operation in turn; the result is the virtual time that passed in them -/
def specPolls (T : Int) : Int → List SysObs → Except String Int
  | e, [] => .ok e
  | e, .poll t a :: l =>
    match pollClause T e t with
    | some m => .error m
    | none => specPolls T (e + adv t a) l
  | e, _ :: l => specPolls T e l

/-- the operation as a whole: `nothing` = it returned nullopt / no data / no connection -/
def endClause (T elapsed : Int) (nothing : Bool) : Option String :=
  if T < 0 ∧ nothing then some "operation with unlimited timeout returned 'nothing'"
  else if T > 0 ∧ nothing ∧ elapsed < T then some s!"returned 'nothing' after {elapsed} ms, earlier than its timeout {T}"
  else if T > 0 ∧ elapsed > T then some s!"blocked {elapsed} ms in total, longer than its timeout {T}"
  else if T = 0 ∧ elapsed ≠ 0 then some "zero-timeout operation let time pass"
  else none

/-- the poll timeouts the library passed, against the operation's timeout -/
def specTimeouts (T : Int) (sys : List SysObs) (nothing : Bool) : Option String :=
  match specPolls T 0 sys with
  | .error m => some m
  | .ok e => endClause T e nothing

/-- which property is being decided: C07 judges the timeouts of every operation, C16 those of the
operations that met a signal, and that the signal alone did not make the call fail -/
structure Mode where
  c07 : Bool
  c16 : Bool
  deriving Repr, DecidableEq

def tmoClause (md : Mode) (sys : List SysObs) (T : Int) (nothing : Bool) : Option String :=
  if md.c07 ∨ (md.c16 ∧ hasEintr sys) then specTimeouts T sys nothing else none

def sigClause (md : Mode) (sys : List SysObs) (what : String) (x : Thrown) (logicOk : Bool) : Option String :=
  if md.c16 ∧ hasEintr sys ∧ !hasPollFail sys ∧ !hasIoFail sys ∧ !(logicOk ∧ x = .logic) then
    some s!"a signal made {what} fail: {x.text}" else none

/-- the clauses of the modes C07s / C16 for one operation -/
def opClause (md : Mode) (sys : List SysObs) : OpObs → Option String
  | .send _ T r =>
    match r with
    | .count _ => tmoClause md sys T false
    | .bad => some "bad ret"
    | .threw x => sigClause md sys "Send" x true
    | _ => some "missing result"
  | .recv _ T r =>
    match r with
    | .none => tmoClause md sys T true
    | .data (some _) _ => tmoClause md sys T false
    | .data none _ => some "bad ret"
    | .threw .closed => none
    | .threw x => sigClause md sys "Receive" x false
    | _ => some "missing result"
  | .sendto data T r =>
    match r with
    | .count n => tmoClause md sys T (n = 0 ∧ data.length > 0 ∧ !(anySend sys))
    | .bad => some "bad ret"
    | .threw x => sigClause md sys "SendTo" x true
    | _ => some "missing result"
  | .recvfrom _ T r =>
    match r with
    | .none => tmoClause md sys T true
    | .data _ _ => tmoClause md sys T false
    | .threw x => sigClause md sys "ReceiveFrom" x false
    | _ => some "missing result"
  | .listen T r =>
    match r with
    | .none => tmoClause md sys T true
    | .count _ => tmoClause md sys T false
    | .threw x => sigClause md sys "Listen" x false
    | _ => some "missing result"
  | _ => none

/-- the predicate keeps no book: every clause is about one operation -/
abbrev SpecSt := Unit

/-- the whole predicate for one transcript block: a crash / hang is a failure of every property; no
`send` without `MSG_NOSIGNAL`; then the timeout / signal clauses of the operation -/
def specStepM (md : Mode) (s : SpecSt) (o : Obs) : Except String SpecSt :=
  match o.op with
  | .abort msg => .error msg
  | op =>
    if nosigBad o.sys then .error "a send() without MSG_NOSIGNAL"
    else match opClause md o.sys op with
      | some m => .error m
      | none => .ok s

def specRunM (md : Mode) (s : SpecSt) : List Obs → Except String SpecSt
  | [] => .ok s
  | o :: os => match specStepM md s o with | .ok s' => specRunM md s' os | .error e => .error e

/-- the predicate of `./check C07` (driver mode `C07s`) -/
def c07 : Mode := { c07 := true, c16 := false }
def specStep : SpecSt → Obs → Except String SpecSt := specStepM c07
def specRun : SpecSt → List Obs → Except String SpecSt := specRunM c07


/-! ## blocking socket operations: the model satisfies the predicate

The observations of the MODEL are those of `Spec/C01.lean` (`C01.sysStep` / `C01.modelTrace`: the functions
`send`, `receive`, `sendTo`, `receiveFrom`, `acceptT` of `Model/SendLoop.lean` on arbitrary scripted `poll` /
`send` answers; the `-> sys` lines are the calls the model logged paired with the answers they consumed).
The proof follows the virtual clock through the polls: `Bud T os os' e e'` - between `os` and `os'` the model
consumed the poll answers `ps` with the arguments it logged, the poll clauses hold for them starting `e` ms
into the operation, and `e'` ms have passed afterwards. -/

open SockModel.Spec.C01 (Run Step1 tcpRecvObs udpRecvObs accRecvObs)

/-- the poll clauses on (argument, answer) pairs -/
def specPollsP (T : Int) : Int → List (Int × PollAns) → Except String Int
  | e, [] => .ok e
  | e, (t, a) :: l =>
    match pollClause T e t with
    | some m => .error m
    | none => specPollsP T (e + adv t a) l

def pollPairs : List SysObs → List (Int × PollAns)
  | [] => []
  | .poll t a :: l => (t, a) :: pollPairs l
  | .send _ _ _ :: l => pollPairs l
  | .recv _ _ :: l => pollPairs l

theorem specPolls_pairs (T : Int) (e : Int) (l : List SysObs) : specPolls T e l = specPollsP T e (pollPairs l) := by
  induction l generalizing e with
  | nil => rfl
  | cons o l ih =>
    cases o with
    | poll t a =>
      simp only [specPolls, pollPairs, specPollsP]
      cases pollClause T e t with
      | none => exact ih _
      | some m => rfl
    | send _ _ _ => simp only [specPolls, pollPairs]; exact ih _
    | recv _ _ => simp only [specPolls, pollPairs]; exact ih _

theorem specPollsP_append (T : Int) (e : Int) (p q : List (Int × PollAns)) :
    specPollsP T e (p ++ q) = match specPollsP T e p with | .ok e1 => specPollsP T e1 q | .error m => .error m := by
  induction p generalizing e with
  | nil => rfl
  | cons x p ih =>
    obtain ⟨t, a⟩ := x
    simp only [List.cons_append, specPollsP]
    cases pollClause T e t with
    | none => exact ih _
    | some m => rfl

/-- the polls the model issued between two states: answers consumed, arguments logged -/
def PTr (a c : Os) (ps : List (Int × PollAns)) : Prop :=
  a.polls = ps.map (·.2) ++ c.polls ∧ pollArgs c = pollArgs a ++ ps.map (·.1)

def Bud (T : Int) (a c : Os) (e e' : Int) : Prop := ∃ ps, PTr a c ps ∧ specPollsP T e ps = .ok e'

theorem Bud.frame {T : Int} {a c : Os} {e : Int} (h1 : c.polls = a.polls) (h2 : pollArgs c = pollArgs a) :
    Bud T a c e e := ⟨[], ⟨by simp [h1], by simp [h2]⟩, rfl⟩

theorem Bud.trans {T : Int} {a b c : Os} {e e1 e2 : Int} (h1 : Bud T a b e e1) (h2 : Bud T b c e1 e2) :
    Bud T a c e e2 := by
  obtain ⟨p, ⟨hp1, hp2⟩, hs1⟩ := h1
  obtain ⟨q, ⟨hq1, hq2⟩, hs2⟩ := h2
  refine ⟨p ++ q, ⟨by rw [hp1, hq1]; simp, by rw [hq2, hp2]; simp⟩, ?_⟩
  rw [specPollsP_append, hs1]
  exact hs2

/-- one `poll` of the model: the scripted answer it consumed and the time that passed -/
theorem pollOnce_tr {t : Int} {os os' : Os} {a' : PollAns} (h : pollOnce t os = some (a', os')) :
    ∃ a, os.polls = a :: os'.polls ∧ os'.now = os.now + adv t a * nsPerMs ∧
      (a' = .timedOut → 0 ≤ t → adv t a = t) ∧ 0 ≤ adv t a ∧ (0 ≤ t → adv t a ≤ t) := by
  unfold pollOnce at h
  cases hp : os.polls with
  | nil => rw [hp] at h; cases h
  | cons a0 rest =>
    rw [hp] at h
    refine ⟨a0, ?_⟩
    cases a0 with
    | ready d =>
      simp only at h
      by_cases hc : t ≥ 0 ∧ (d : Int) > t
      · have hadv : adv t (.ready d) = t := by simp only [adv, if_pos hc]
        rw [if_pos hc] at h; cases h
        rw [hadv]
        exact ⟨rfl, rfl, fun _ _ => rfl, hc.1, fun _ => Int.le_refl _⟩
      · have hadv : adv t (.ready d) = d := by simp only [adv, if_neg hc]
        rw [if_neg hc] at h; cases h
        rw [hadv]
        exact ⟨rfl, rfl, (fun h => by cases h), by omega, fun _ => by omega⟩
    | eintr d =>
      simp only at h
      by_cases hc : t ≥ 0 ∧ (d : Int) > t
      · have hadv : adv t (.eintr d) = t := by simp only [adv, if_pos hc]
        rw [if_pos hc] at h; cases h
        rw [hadv]
        exact ⟨rfl, rfl, fun _ _ => rfl, hc.1, fun _ => Int.le_refl _⟩
      · have hadv : adv t (.eintr d) = d := by simp only [adv, if_neg hc]
        rw [if_neg hc] at h; cases h
        rw [hadv]
        exact ⟨rfl, rfl, (fun h => by cases h), by omega, fun _ => by omega⟩
    | timedOut =>
      simp only at h
      cases h
      by_cases hc : t > 0
      · have hadv : adv t .timedOut = t := by simp only [adv, if_pos hc]
        rw [hadv, if_pos hc]
        exact ⟨rfl, rfl, fun _ _ => rfl, by omega, fun _ => Int.le_refl _⟩
      · have hadv : adv t .timedOut = 0 := by simp only [adv, if_neg hc]
        rw [hadv, if_neg hc]
        exact ⟨rfl, by simp, fun _ _ => by omega, Int.le_refl _, fun h => h⟩
    | fail c =>
      simp only at h
      cases h
      have hadv : adv t (.fail c) = 0 := rfl
      rw [hadv]
      exact ⟨rfl, by simp, (fun h => by cases h), Int.le_refl _, fun h => h⟩

theorem Bud.single {T t e : Int} {os os1 : Os} {a a' : PollAns} (hp : pollOnce t os = some (a', os1))
    (hpolls : os.polls = a :: os1.polls) (hc : pollClause T e t = none) : Bud T os os1 e (e + adv t a) :=
  ⟨[(t, a)], ⟨by simp [hpolls], by simp [pollOnce_pollArgs hp]⟩, by simp [specPollsP, hc]⟩

theorem pollClause_neg {T e t : Int} (hT : T < 0) (ht : t < 0) : pollClause T e t = none := by
  unfold pollClause
  rw [if_neg (by omega), if_neg (by omega), if_neg (by omega)]

theorem pollClause_zero {e : Int} : pollClause 0 e 0 = none := by
  unfold pollClause
  rw [if_neg (by omega), if_neg (by omega), if_neg (by omega)]

theorem pollClause_pos {T e t : Int} (hT : 0 < T) (ht : 0 ≤ t) (hb : t ≤ T - e) : pollClause T e t = none := by
  unfold pollClause
  rw [if_neg (by omega), if_neg (by omega), if_neg (by omega)]

theorem adv_zero (a : PollAns) : adv 0 a = 0 := by
  cases a with
  | ready d => simp only [adv]; split <;> omega
  | eintr d => simp only [adv]; split <;> omega
  | timedOut => simp [adv]
  | fail c => rfl

/-- an unlimited wait of an unlimited operation -/
theorem waitFixed_bud_neg {T t : Int} (hT : T < 0) (ht : t < 0) (fuel : Nat) (os : Os) (e : Int) :
    ∃ e', Bud T os (waitFixed t fuel os).2 e e' := by
  induction fuel generalizing os e with
  | zero => exact ⟨e, Bud.frame rfl rfl⟩
  | succ fuel ih =>
    unfold waitFixed
    cases hp : pollOnce t os with
    | none => exact ⟨e, Bud.frame rfl rfl⟩
    | some r =>
      obtain ⟨a', os1⟩ := r
      obtain ⟨a, hpolls, _⟩ := pollOnce_tr hp
      have h1 := Bud.single (T := T) (e := e) hp hpolls (pollClause_neg hT ht)
      cases a' with
      | ready d => exact ⟨_, h1⟩
      | timedOut => exact ⟨_, h1⟩
      | fail c => exact ⟨_, h1⟩
      | eintr d =>
        obtain ⟨e', h2⟩ := ih os1 (e + adv t a)
        exact ⟨e', h1.trans h2⟩

/-- a zero wait lets no time pass -/
theorem waitFixed_bud_zero {T e : Int} (hc : pollClause T e 0 = none) (fuel : Nat) (os : Os) :
    Bud T os (waitFixed 0 fuel os).2 e e := by
  induction fuel generalizing os with
  | zero => exact Bud.frame rfl rfl
  | succ fuel ih =>
    unfold waitFixed
    cases hp : pollOnce 0 os with
    | none => exact Bud.frame rfl rfl
    | some r =>
      obtain ⟨a', os1⟩ := r
      obtain ⟨a, hpolls, _⟩ := pollOnce_tr hp
      have h1 := Bud.single (T := T) (e := e) hp hpolls hc
      rw [adv_zero, Int.add_zero] at h1
      cases a' with
      | ready d => exact h1
      | timedOut => exact h1
      | fail c => exact h1
      | eintr d => exact h1.trans (ih os1)

theorem remaining_eq {now dl k : Int} (h : dl - now = k * nsPerMs) (hk : 0 ≤ k) :
    (Deadline.limited now dl).remaining = k := by
  show (if toMs (dl - now) < 0 then 0 else toMs (dl - now)) = k
  rw [h, toMs_mul, if_neg (by omega)]

/-- a limited wait, entered `e` ms into an operation with timeout `T` and ending at `start + T`: every
poll argument is the remaining budget, and "timeout" is reported exactly when the budget is used up -/
theorem waitLimited_bud {T : Int} (hT : 0 < T) (hTm : T ≤ intMax) (dl : Int) (fuel : Nat) (os : Os) (e : Int)
    (he : 0 ≤ e) (heT : e ≤ T) (hdl : dl - os.now = (T - e) * nsPerMs) :
    ∃ e', Bud T os (waitLimited dl fuel os).2 e e' ∧ e ≤ e' ∧ e' ≤ T ∧
      (waitLimited dl fuel os).2.now = os.now + (e' - e) * nsPerMs ∧
      ((waitLimited dl fuel os).1 = .ok false → e' = T) := by
  induction fuel generalizing os e with
  | zero => exact ⟨e, Bud.frame rfl rfl, Int.le_refl _, heT, by simp [waitLimited], fun h => by simp [waitLimited] at h⟩
  | succ fuel ih =>
    unfold waitLimited
    rw [remaining_eq hdl (by omega), toMsec_small (by omega) (by omega)]
    cases hp : pollOnce (T - e) os with
    | none => exact ⟨e, Bud.frame rfl rfl, Int.le_refl _, heT, by simp, fun h => by cases h⟩
    | some r =>
      obtain ⟨a', os1⟩ := r
      obtain ⟨a, hpolls, hnow, hto, h0, hle⟩ := pollOnce_tr hp
      have hle' := hle (by omega)
      have h1 := Bud.single (T := T) (e := e) hp hpolls (pollClause_pos (by omega) (by omega) (Int.le_refl _))
      have hclk : os1.now = os.now + (e + adv (T - e) a - e) * nsPerMs := by
        rw [hnow]; congr 2; omega
      cases a' with
      | ready d => exact ⟨_, h1, by omega, by omega, hclk, fun h => by cases h⟩
      | fail c => exact ⟨_, h1, by omega, by omega, hclk, fun h => by cases h⟩
      | timedOut =>
        have := hto rfl (by omega)
        exact ⟨_, h1, by omega, by omega, hclk, fun _ => by omega⟩
      | eintr d =>
        have hdl' : dl - os1.now = (T - (e + adv (T - e) a)) * nsPerMs := by
          rw [hnow]; unfold nsPerMs at *; omega
        obtain ⟨e', h2, g1, g2, g3, g4⟩ := ih os1 (e + adv (T - e) a) (by omega) (by omega) hdl'
        refine ⟨e', h1.trans h2, by omega, g2, ?_, g4⟩
        simp only
        rw [g3, hnow]; unfold nsPerMs; omega

/-- `Wait` with timeout `t`, entered `e` ms into an operation with timeout `T`: `t` is `T` itself for an
unlimited / zero operation and the remaining budget `T - e` for a limited one -/
theorem wait_bud (T t e : Int) (os : Os) (h1 : T < 0 → t < 0) (h2 : T = 0 → t = 0)
    (h3 : 0 < T → 0 ≤ e ∧ t = T - e ∧ 0 ≤ t ∧ T ≤ intMax) :
    ∃ e', Bud T os (wait t os).2 e e' ∧
      (0 < T → e' ≤ T ∧ e ≤ e' ∧ (wait t os).2.now = os.now + (e' - e) * nsPerMs ∧
        ((wait t os).1 = .ok false → e' = T)) ∧
      (T = 0 → e' = e) := by
  have hm0 : toMsec 0 = 0 := by decide
  by_cases hT : T < 0
  · have ht := h1 hT
    unfold wait
    rw [if_pos (by omega)]
    obtain ⟨e', hb⟩ := waitFixed_bud_neg hT (C01.toMsec_neg ht) (os.polls.length + 1) os e
    exact ⟨e', hb, fun h => by omega, fun h => by omega⟩
  · by_cases hT0 : T = 0
    · have ht := h2 hT0
      subst ht; subst hT0
      unfold wait
      rw [if_pos (by omega), hm0]
      exact ⟨e, waitFixed_bud_zero pollClause_zero _ os, fun h => by omega, fun _ => rfl⟩
    · obtain ⟨he, ht, ht0, hTm⟩ := h3 (by omega)
      by_cases htz : t = 0
      · subst htz
        unfold wait
        rw [if_pos (by omega), hm0]
        refine ⟨e, waitFixed_bud_zero (pollClause_pos (by omega) (Int.le_refl _) (by omega)) _ os, ?_, fun h => by omega⟩
        intro _
        refine ⟨by omega, Int.le_refl _, ?_, fun _ => by omega⟩
        rw [waitFixed_zero_now]; simp
      · unfold wait
        rw [if_neg (by omega)]
        obtain ⟨e', hb, g1, g2, g3, g4⟩ := waitLimited_bud (by omega) hTm (os.now + t * nsPerMs) (os.polls.length + 1) os e he
          (by omega) (by rw [ht]; omega)
        exact ⟨e', hb, fun _ => ⟨g2, g1, g3, g4⟩, fun h => by omega⟩

theorem endClause_false {T e : Int} (h1 : 0 < T → e ≤ T) (h2 : T = 0 → e = 0) : endClause T e false = none := by
  unfold endClause
  rw [if_neg (by simp), if_neg (by simp), if_neg (by intro h; have := h1 h.1; omega),
    if_neg (by intro h; exact h.2 (h2 h.1))]

theorem endClause_true {T e : Int} (h0 : ¬ T < 0) (h1 : 0 < T → e = T) (h2 : T = 0 → e = 0) :
    endClause T e true = none := by
  unfold endClause
  rw [if_neg (by intro h; exact h0 h.1), if_neg (by intro h; have := h1 h.1; omega),
    if_neg (by intro h; have := h1 h.1; omega), if_neg (by intro h; exact h.2 (h2 h.1))]

/-- the operations that are one `Wait` followed by at most one non-blocking system call -/
theorem waitop_bud (T : Int) (os os' : Os) (hT : T ≤ intMax) (hk : T < 0 → ∀ a ∈ os.polls, a ≠ .timedOut)
    (hf1 : os'.polls = (wait T os).2.polls) (hf2 : pollArgs os' = pollArgs (wait T os).2) :
    ∃ e', Bud T os os' 0 e' ∧ endClause T e' false = none ∧
      ((wait T os).1 = .ok false → endClause T e' true = none) := by
  obtain ⟨e', hb, g1, g2⟩ := wait_bud T T 0 os (fun h => h) (fun h => h) (fun h => ⟨Int.le_refl _, by omega, by omega, hT⟩)
  refine ⟨e', hb.trans (Bud.frame hf1 hf2), endClause_false (fun h => (g1 h).1) g2, ?_⟩
  intro hw
  refine endClause_true ?_ (fun h => (g1 h).2.2.2 hw) g2
  intro hneg
  exact C01.wait_neg_not_false hneg os (hk hneg) hw

theorem pollArgs_cons_send (os : Os) (len : Nat) (acc : Bytes) (os' : Os) (h : os'.calls = .send len acc :: os.calls) :
    pollArgs os' = pollArgs os := by
  unfold pollArgs; rw [h]; simp

theorem pollArgs_cons_poll (os : Os) (t : Int) (os' : Os) (h : os'.calls = .poll t :: os.calls) :
    pollArgs os' = pollArgs os ++ [t] := by
  unfold pollArgs; rw [h]; simp

theorem pollArgs_cons_recv (os : Os) (size : Nat) (os' : Os) (h : os'.calls = .recv size :: os.calls) :
    pollArgs os' = pollArgs os := by
  unfold pollArgs; rw [h]; simp

theorem recvNow_frame (size : Nat) (os : Os) :
    (recvNow size os).2.polls = os.polls ∧ pollArgs (recvNow size os).2 = pollArgs os := by
  unfold recvNow
  split
  · exact ⟨rfl, rfl⟩
  · simp only
    split <;> (try split) <;> exact ⟨rfl, pollArgs_cons_recv _ _ _ rfl⟩

theorem receive_frame (size : Nat) (T : Int) (os : Os) :
    (receive size T os).2.polls = (wait T os).2.polls ∧ pollArgs (receive size T os).2 = pollArgs (wait T os).2 ∧
    ((receive size T os).1 = .ok none → (wait T os).1 = .ok false) := by
  unfold receive
  cases hw : wait T os with
  | mk rw osw =>
    cases rw with
    | exn e => exact ⟨rfl, rfl, fun h => by cases h⟩
    | ok b =>
      cases b with
      | false => exact ⟨rfl, rfl, fun _ => rfl⟩
      | true =>
        simp only
        have hf := recvNow_frame size osw
        cases hr : recvNow size osw with
        | mk rr osr =>
          rw [hr] at hf
          cases rr with
          | ok bs => exact ⟨hf.1, hf.2, fun h => by cases h⟩
          | exn e => exact ⟨hf.1, hf.2, fun h => by cases h⟩

theorem receiveFrom_frame (size : Nat) (T : Int) (os : Os) :
    (receiveFrom size T os).2.polls = (wait T os).2.polls ∧
    pollArgs (receiveFrom size T os).2 = pollArgs (wait T os).2 ∧
    ((receiveFrom size T os).1 = .ok none → (wait T os).1 = .ok false) := by
  unfold receiveFrom
  cases hw : wait T os with
  | mk rw osw =>
    cases rw with
    | exn e => exact ⟨rfl, rfl, fun h => by cases h⟩
    | ok b =>
      cases b with
      | false => exact ⟨rfl, rfl, fun _ => rfl⟩
      | true =>
        simp only
        cases hr : osw.recvs with
        | nil => exact ⟨rfl, rfl, fun h => by cases h⟩
        | cons a rest =>
          cases a with
          | got x => exact ⟨rfl, pollArgs_cons_recv _ _ _ rfl, fun h => by cases h⟩
          | eof => exact ⟨rfl, pollArgs_cons_recv _ _ _ rfl, fun h => by cases h⟩
          | fail c => exact ⟨rfl, pollArgs_cons_recv _ _ _ rfl, fun h => by cases h⟩

theorem acceptT_frame (T : Int) (os : Os) :
    (acceptT T os).2.polls = (wait T os).2.polls ∧ pollArgs (acceptT T os).2 = pollArgs (wait T os).2 ∧
    ((acceptT T os).1 = .ok none → (wait T os).1 = .ok false) := by
  unfold acceptT
  cases hw : wait T os with
  | mk rw osw =>
    cases rw with
    | exn e => exact ⟨rfl, rfl, fun h => by cases h⟩
    | ok b =>
      cases b with
      | false => exact ⟨rfl, rfl, fun _ => rfl⟩
      | true =>
        simp only
        cases hr : osw.recvs with
        | nil => exact ⟨rfl, rfl, fun h => by cases h⟩
        | cons a rest =>
          cases a with
          | got x => exact ⟨rfl, pollArgs_cons_recv _ _ _ rfl, fun h => by cases h⟩
          | eof => exact ⟨rfl, pollArgs_cons_recv _ _ _ rfl, fun h => by cases h⟩
          | fail c => exact ⟨rfl, pollArgs_cons_recv _ _ _ rfl, fun h => by cases h⟩

theorem sendTo_frame (data : Bytes) (T : Int) (os : Os) :
    (sendTo data T os).2.polls = (wait T os).2.polls ∧ pollArgs (sendTo data T os).2 = pollArgs (wait T os).2 := by
  unfold sendTo
  cases hw : wait T os with
  | mk rw osw =>
    cases rw with
    | exn e => exact ⟨rfl, rfl⟩
    | ok b =>
      cases b with
      | false => exact ⟨rfl, rfl⟩
      | true =>
        simp only
        cases hr : osw.sends with
        | nil => exact ⟨rfl, rfl⟩
        | cons a rest =>
          cases a with
          | accept k => simp only; split <;> exact ⟨rfl, pollArgs_cons_send _ _ _ _ rfl⟩
          | fail c => exact ⟨rfl, pollArgs_cons_send _ _ _ _ rfl⟩

/-! the TCP send loops -/

theorem sendNow_bud {T : Int} (data : Bytes) (os : Os) (e : Int) : Bud T os (sendNow data os).2 e e := by
  obtain ⟨h1, _, _, h4, _⟩ := sendNow_facts (data := data) (os := os) rfl
  exact Bud.frame h1 h4

theorem sendAllLoop_bud {T : Int} (hT : T < 0) (fuel : Nat) (rem : Bytes) (sent : Nat) (os : Os) (e : Int) :
    ∃ e', Bud T os (sendAllLoop fuel rem sent os).2 e e' := by
  induction fuel generalizing rem sent os e with
  | zero => exact ⟨e, Bud.frame rfl rfl⟩
  | succ fuel ih =>
    unfold sendAllLoop
    obtain ⟨e1, hb, _⟩ := wait_bud T (-1) e os (fun _ => by omega) (fun h => by omega) (fun h => by omega)
    cases hw : wait (-1) os with
    | mk rw osw =>
      rw [hw] at hb
      cases rw with
      | exn x => exact ⟨e1, hb⟩
      | ok b =>
        simp only
        have hs := sendNow_bud (T := T) rem osw e1
        cases hsn : sendNow rem osw with
        | mk rs oss =>
          rw [hsn] at hs
          cases rs with
          | exn x => exact ⟨e1, hb.trans hs⟩
          | ok k =>
            simp only
            split
            · exact ⟨e1, hb.trans hs⟩
            · obtain ⟨e', h3⟩ := ih (rem.drop k) (sent + k) oss e1
              exact ⟨e', (hb.trans hs).trans h3⟩

theorem sendTry_bud (data : Bytes) (os : Os) : Bud 0 os (sendTry data os).2 0 0 := by
  unfold sendTry
  obtain ⟨e1, hb, _, h0⟩ := wait_bud 0 0 0 os (fun h => by omega) (fun _ => rfl) (fun h => by omega)
  have := h0 rfl
  subst this
  cases hw : wait 0 os with
  | mk rw osw =>
    rw [hw] at hb
    cases rw with
    | exn x => exact hb
    | ok b =>
      cases b with
      | false => exact hb
      | true => exact hb.trans (sendNow_bud data osw 0)

theorem sendSomeLoop_bud {T : Int} (hT : 0 < T) (hTm : T ≤ intMax) (deadline : Int) (fuel : Nat) (rem : Bytes)
    (sent : Nat) (os : Os) (e : Int) (he : 0 ≤ e) (heT : e ≤ T) (hdl : deadline - os.now = (T - e) * nsPerMs) :
    ∃ e', Bud T os (sendSomeLoop deadline fuel rem sent os.now os).2 e e' ∧ e' ≤ T := by
  induction fuel generalizing rem sent os e with
  | zero => exact ⟨e, Bud.frame rfl rfl, heT⟩
  | succ fuel ih =>
    unfold sendSomeLoop
    rw [remaining_eq hdl (by omega)]
    obtain ⟨e1, hb, g, _⟩ := wait_bud T (T - e) e os (fun h => by omega) (fun h => by omega)
      (fun _ => ⟨he, rfl, by omega, hTm⟩)
    obtain ⟨g1, g2, g3, _⟩ := g hT
    cases hw : wait (T - e) os with
    | mk rw osw =>
      rw [hw] at hb g3
      simp only at g3
      cases rw with
      | exn x => exact ⟨e1, hb, g1⟩
      | ok b =>
        cases b with
        | false => exact ⟨e1, hb, g1⟩
        | true =>
          simp only
          have hs := sendNow_bud (T := T) rem osw e1
          cases hsn : sendNow rem osw with
          | mk rs oss =>
            rw [hsn] at hs
            have hnow : oss.now = osw.now := (sendNow_facts hsn).2.2.1
            cases rs with
            | exn x => exact ⟨e1, hb.trans hs, g1⟩
            | ok k =>
              simp only
              split
              · exact ⟨e1, hb.trans hs, g1⟩
              · have hdl' : deadline - oss.now = (T - e1) * nsPerMs := by
                  rw [hnow, g3]; unfold nsPerMs at *; omega
                obtain ⟨e', h3, g4⟩ := ih (rem.drop k) (sent + k) oss e1 (by omega) g1 hdl'
                rw [hnow] at h3
                exact ⟨e', (hb.trans hs).trans h3, g4⟩

/-- `Send` in every timeout mode: the polls of all its waits are within the budget -/
theorem send_bud (data : Bytes) (T : Int) (os : Os) (hT : T ≤ intMax) :
    ∃ e', Bud T os (send data T os).2 0 e' ∧ endClause T e' false = none := by
  unfold send
  split
  · rename_i hneg
    obtain ⟨e', hb⟩ := sendAllLoop_bud hneg (os.sends.length + 1) data 0 os 0
    exact ⟨e', hb, endClause_false (fun h => by omega) (fun h => by omega)⟩
  · split
    · rename_i h0
      subst h0
      exact ⟨0, sendTry_bud data os, endClause_false (fun h => by omega) (fun _ => rfl)⟩
    · rename_i hn h0
      have hpos : 0 < T := by omega
      obtain ⟨e', hb, hle⟩ := sendSomeLoop_bud hpos hT (os.now + T * nsPerMs) (os.sends.length + 1) data 0 os 0
        (Int.le_refl _) (by omega) (by rw [Int.sub_zero]; omega)
      exact ⟨e', hb, endClause_false (fun _ => hle) (fun h => by omega)⟩

/-! from the model's `Os` to its `-> sys` lines -/

theorem Run.ptr {f : RecvAns → Nat → C01.RecvObs} {a c : Os} {l : List SysObs} (h : Run f a l c) :
    PTr a c (pollPairs l) := by
  induction h with
  | nil os => exact ⟨by simp [pollPairs], by simp [pollPairs]⟩
  | cons s _ ih =>
    obtain ⟨i1, i2⟩ := ih
    cases s with
    | poll h1 h2 h3 h4 h5 =>
      refine ⟨?_, ?_⟩
      · rw [h1, ← h2, i1]; simp [pollPairs]
      · rw [i2, pollArgs_cons_poll _ _ _ h5]; simp [pollPairs]
    | send h1 h2 h3 h4 h5 _ =>
      exact ⟨by rw [← h3, i1]; simp [pollPairs], by rw [i2, pollArgs_cons_send _ _ _ _ h5]; simp [pollPairs]⟩
    | recv h1 h2 h3 h4 h5 =>
      exact ⟨by rw [← h3, i1]; simp [pollPairs], by rw [i2, pollArgs_cons_recv _ _ _ h5]; simp [pollPairs]⟩

theorem pairs_ext {α β : Type} : ∀ (p q : List (α × β)), p.map (·.1) = q.map (·.1) → p.map (·.2) = q.map (·.2) → p = q
  | [], [], _, _ => rfl
  | [], _ :: _, h, _ => by simp at h
  | _ :: _, [], h, _ => by simp at h
  | (a, b) :: p, (a', b') :: q, h1, h2 => by
    simp only [List.map_cons, List.cons.injEq] at h1 h2
    obtain ⟨rfl, h1⟩ := h1
    obtain ⟨rfl, h2⟩ := h2
    rw [pairs_ext p q h1 h2]

theorem PTr.unique {a c : Os} {p q : List (Int × PollAns)} (h1 : PTr a c p) (h2 : PTr a c q) : p = q := by
  apply pairs_ext
  · exact List.append_cancel_left (h1.2.symm.trans h2.2)
  · exact List.append_cancel_right (h1.1.symm.trans h2.1)

/-- the timeout clauses hold for the `-> sys` lines of a model operation whose polls are within the budget -/
theorem tmo_ok {f : RecvAns → Nat → C01.RecvObs} {T : Int} {a c : Os} {l : List SysObs} {e' : Int} {b : Bool}
    (hb : Bud T a c 0 e') (hr : Run f a l c) (hf : endClause T e' false = none)
    (ht : b = true → endClause T e' true = none) : specTimeouts T l b = none := by
  obtain ⟨ps, hp, hs⟩ := hb
  have := hp.unique (Run.ptr hr)
  subst this
  unfold specTimeouts
  rw [specPolls_pairs, hs]
  cases b with
  | false => exact hf
  | true => exact ht rfl

theorem tmoClause_ok {md : Mode} {sys : List SysObs} {T : Int} {b : Bool} (h : specTimeouts T sys b = none) :
    tmoClause md sys T b = none := by
  unfold tmoClause
  split
  · exact h
  · rfl

theorem sigClause_ok {md : Mode} {sys : List SysObs} {what : String} {x : Thrown} {logicOk : Bool}
    (h : hasPollFail sys = true ∨ hasIoFail sys = true ∨ (logicOk = true ∧ x = .logic)) :
    sigClause md sys what x logicOk = none := by
  unfold sigClause
  rcases h with h | h | h <;> simp [h]

/-- the domain: the timeout is in the documented range `T < 2^31` ms (beyond it `ToMsec` clamps the poll
argument and a wait reports "timed out" before `T`), and the kernel does not answer an unlimited `poll`
with "timed out" (a statement about the kernel, as in `Spec/C01.lean`) -/
def tOk (T : Int) (polls : List PollAns) : Bool :=
  decide (T ≤ intMax ∧ (T < 0 → ∀ a ∈ polls, a ≠ PollAns.timedOut))

def opOk : C01.Op → Bool
  | .send _ T _ _ => decide (T ≤ intMax)
  | .recv _ T polls _ => tOk T polls
  | .sendto _ T polls _ => tOk T polls
  | .recvfrom _ T polls _ => tOk T polls
  | .listen T polls _ => tOk T polls
  | _ => true

def histOk (history : List C01.Op) : Bool := history.all opOk


theorem specStepM_of {md : Mode} {o : Obs} (hab : ∀ msg, o.op ≠ .abort msg) (hns : nosigBad o.sys = false)
    (hcl : opClause md o.sys o.op = none) : specStepM md () o = .ok () := by
  unfold specStepM
  split
  · rename_i msg h; exact absurd h (hab msg)
  · rw [hns, hcl]; rfl

theorem tOk_spec {T : Int} {polls : List PollAns} (h : tOk T polls = true) :
    T ≤ intMax ∧ (T < 0 → ∀ a ∈ polls, a ≠ PollAns.timedOut) := of_decide_eq_true h

/-- one operation of a history: every clause of the predicate (either mode) accepts what the model does -/
theorem step_ok (md : Mode) (m : C01.Sys) (op : C01.Op) (hop : opOk op = true) {m' : C01.Sys} {o : Obs}
    (hstep : C01.sysStep m op = some (m', o)) : specStepM md () o = .ok () := by
  cases op with
  | send data T polls sends =>
    simp only [C01.sysStep] at hstep
    have hT : T ≤ intMax := of_decide_eq_true hop
    obtain ⟨l, hrun, hex⟩ := C01.send_run tcpRecvObs data T { polls := polls, sends := sends }
    have hsys := hrun.sysOf rfl
    have hnosig := hrun.nosig
    obtain ⟨e', hb, hend⟩ := send_bud data T { polls := polls, sends := sends } hT
    have htm : specTimeouts T l false = none := tmo_ok hb hrun hend (fun h => by cases h)
    rw [hsys] at hstep
    cases hp : (send data T { polls := polls, sends := sends }).1 with
    | ok n =>
      rw [hp] at hstep
      simp only [Option.some.injEq, Prod.mk.injEq] at hstep
      obtain ⟨_, rfl⟩ := hstep
      exact specStepM_of (by intro msg h; cases h) hnosig (tmoClause_ok htm)
    | exn e =>
      rw [hp] at hstep
      have hc := hex e hp
      cases e with
      | exhausted => simp at hstep
      | system c =>
        simp only [Option.some.injEq, Prod.mk.injEq] at hstep
        obtain ⟨_, rfl⟩ := hstep
        refine specStepM_of (by intro msg h; cases h) hnosig (sigClause_ok ?_)
        rcases hc.system_fail with h | h
        · exact Or.inl h
        · exact Or.inr (Or.inl h)
      | logic =>
        simp only [Option.some.injEq, Prod.mk.injEq] at hstep
        obtain ⟨_, rfl⟩ := hstep
        exact specStepM_of (by intro msg h; cases h) hnosig (sigClause_ok (Or.inr (Or.inr ⟨rfl, rfl⟩)))
      | closed => exact hc.not_closed.elim
  | recv size T polls ans =>
    simp only [C01.sysStep] at hstep
    obtain ⟨hT, hk⟩ := tOk_spec hop
    obtain ⟨l, hrun, hexn, _, _⟩ :=
      C01.receive_trace size T { polls := polls, recvs := [C01.tcpAns m.inbox m.peerClosed ans] } _ rfl
    have hsys := hrun.sysOf rfl
    have hnosig := hrun.nosig
    have hfr := receive_frame size T { polls := polls, recvs := [C01.tcpAns m.inbox m.peerClosed ans] }
    obtain ⟨e', hb, hf, ht⟩ := waitop_bud T { polls := polls, recvs := [C01.tcpAns m.inbox m.peerClosed ans] } _ hT hk
      hfr.1 hfr.2.1
    rw [hsys] at hstep
    cases hp : (receive size T { polls := polls, recvs := [C01.tcpAns m.inbox m.peerClosed ans] }).1 with
    | ok v =>
      rw [hp] at hstep
      cases v with
      | none =>
        simp only [Option.some.injEq, Prod.mk.injEq] at hstep
        obtain ⟨_, rfl⟩ := hstep
        exact specStepM_of (by intro msg h; cases h) hnosig
          (tmoClause_ok (tmo_ok hb hrun hf (fun _ => ht (hfr.2.2 hp))))
      | some bs =>
        simp only [Option.some.injEq, Prod.mk.injEq] at hstep
        obtain ⟨_, rfl⟩ := hstep
        exact specStepM_of (by intro msg h; cases h) hnosig
          (tmoClause_ok (tmo_ok hb hrun hf (fun h => by cases h)))
    | exn e =>
      rw [hp] at hstep
      obtain ⟨hc, _⟩ := hexn e hp
      cases e with
      | exhausted => simp at hstep
      | system c =>
        simp only [Option.some.injEq, Prod.mk.injEq] at hstep
        obtain ⟨_, rfl⟩ := hstep
        refine specStepM_of (by intro msg h; cases h) hnosig (sigClause_ok ?_)
        rcases hc.system_fail with h | h
        · exact Or.inl h
        · exact Or.inr (Or.inl h)
      | logic => exact hc.not_logic.elim
      | closed =>
        simp only [Option.some.injEq, Prod.mk.injEq] at hstep
        obtain ⟨_, rfl⟩ := hstep
        exact specStepM_of (by intro msg h; cases h) hnosig rfl
  | sendto data T polls sends =>
    simp only [C01.sysStep] at hstep
    obtain ⟨hT, hk⟩ := tOk_spec hop
    obtain ⟨l, hrun, hexn, hok⟩ := C01.sendTo_trace data T { polls := polls, sends := sends } rfl
    have hsys := hrun.sysOf rfl
    have hnosig := hrun.nosig
    have hfr := sendTo_frame data T { polls := polls, sends := sends }
    obtain ⟨e', hb, hf, ht⟩ := waitop_bud T { polls := polls, sends := sends } _ hT hk hfr.1 hfr.2
    rw [hsys] at hstep
    cases hp : (sendTo data T { polls := polls, sends := sends }).1 with
    | ok n =>
      rw [hp] at hstep
      simp only [Option.some.injEq, Prod.mk.injEq] at hstep
      obtain ⟨_, rfl⟩ := hstep
      refine specStepM_of (by intro msg h; cases h) hnosig (tmoClause_ok (tmo_ok hb hrun hf ?_))
      intro hd
      have hd' := of_decide_eq_true hd
      rcases hok n hp with ⟨_, _, _, hwait⟩ | ⟨_, hany, _, _⟩
      · exact ht hwait
      · have := hd'.2.2
        simp [hany] at this
    | exn e =>
      rw [hp] at hstep
      have hc := hexn e hp
      cases e with
      | exhausted => simp at hstep
      | system c =>
        simp only [Option.some.injEq, Prod.mk.injEq] at hstep
        obtain ⟨_, rfl⟩ := hstep
        refine specStepM_of (by intro msg h; cases h) hnosig (sigClause_ok ?_)
        rcases hc.system_fail with h | h
        · exact Or.inl h
        · exact Or.inr (Or.inl h)
      | logic =>
        simp only [Option.some.injEq, Prod.mk.injEq] at hstep
        obtain ⟨_, rfl⟩ := hstep
        exact specStepM_of (by intro msg h; cases h) hnosig (sigClause_ok (Or.inr (Or.inr ⟨rfl, rfl⟩)))
      | closed => exact hc.not_closed.elim
  | recvfrom size T polls ans =>
    simp only [C01.sysStep] at hstep
    obtain ⟨hT, hk⟩ := tOk_spec hop
    obtain ⟨l, hrun, hexn, _, _⟩ :=
      C01.receiveFrom_trace size T { polls := polls, recvs := [C01.udpAns m.dgrams ans] } _ rfl
    have hsys := hrun.sysOf rfl
    have hnosig := hrun.nosig
    have hfr := receiveFrom_frame size T { polls := polls, recvs := [C01.udpAns m.dgrams ans] }
    obtain ⟨e', hb, hf, ht⟩ := waitop_bud T { polls := polls, recvs := [C01.udpAns m.dgrams ans] } _ hT hk hfr.1 hfr.2.1
    rw [hsys] at hstep
    cases hp : (receiveFrom size T { polls := polls, recvs := [C01.udpAns m.dgrams ans] }).1 with
    | ok v =>
      rw [hp] at hstep
      cases v with
      | none =>
        simp only [Option.some.injEq, Prod.mk.injEq] at hstep
        obtain ⟨_, rfl⟩ := hstep
        exact specStepM_of (by intro msg h; cases h) hnosig
          (tmoClause_ok (tmo_ok hb hrun hf (fun _ => ht (hfr.2.2 hp))))
      | some bs =>
        simp only [Option.some.injEq, Prod.mk.injEq] at hstep
        obtain ⟨_, rfl⟩ := hstep
        exact specStepM_of (by intro msg h; cases h) hnosig
          (tmoClause_ok (tmo_ok hb hrun hf (fun h => by cases h)))
    | exn e =>
      rw [hp] at hstep
      obtain ⟨hc, _⟩ := hexn e hp
      cases e with
      | exhausted => simp at hstep
      | system c =>
        simp only [Option.some.injEq, Prod.mk.injEq] at hstep
        obtain ⟨_, rfl⟩ := hstep
        refine specStepM_of (by intro msg h; cases h) hnosig (sigClause_ok ?_)
        rcases hc.system_fail with h | h
        · exact Or.inl h
        · exact Or.inr (Or.inl h)
      | logic => exact hc.not_logic.elim
      | closed => exact hc.not_closed.elim
  | listen T polls err =>
    simp only [C01.sysStep] at hstep
    obtain ⟨hT, hk⟩ := tOk_spec hop
    obtain ⟨l, hrun, hexn⟩ := C01.acceptT_trace T { polls := polls, recvs := [C01.accAns err] }
    have hsys := hrun.sysOf rfl
    have hnosig := hrun.nosig
    have hfr := acceptT_frame T { polls := polls, recvs := [C01.accAns err] }
    obtain ⟨e', hb, hf, ht⟩ := waitop_bud T { polls := polls, recvs := [C01.accAns err] } _ hT hk hfr.1 hfr.2.1
    rw [hsys] at hstep
    cases hp : (acceptT T { polls := polls, recvs := [C01.accAns err] }).1 with
    | ok v =>
      rw [hp] at hstep
      cases v with
      | none =>
        simp only [Option.some.injEq, Prod.mk.injEq] at hstep
        obtain ⟨_, rfl⟩ := hstep
        exact specStepM_of (by intro msg h; cases h) hnosig
          (tmoClause_ok (tmo_ok hb hrun hf (fun _ => ht (hfr.2.2 hp))))
      | some u =>
        simp only [Option.some.injEq, Prod.mk.injEq] at hstep
        obtain ⟨_, rfl⟩ := hstep
        exact specStepM_of (by intro msg h; cases h) hnosig
          (tmoClause_ok (tmo_ok hb hrun hf (fun h => by cases h)))
    | exn e =>
      rw [hp] at hstep
      have hc := hexn e hp
      cases e with
      | exhausted => simp at hstep
      | system c =>
        simp only [Option.some.injEq, Prod.mk.injEq] at hstep
        obtain ⟨_, rfl⟩ := hstep
        refine specStepM_of (by intro msg h; cases h) hnosig (sigClause_ok ?_)
        rcases hc.system_fail with h | h
        · exact Or.inl h
        · exact Or.inr (Or.inl h)
      | logic => exact hc.not_logic.elim
      | closed => exact hc.not_closed.elim
  | psend data =>
    simp only [C01.sysStep, Option.some.injEq, Prod.mk.injEq] at hstep
    obtain ⟨_, rfl⟩ := hstep; rfl
  | pclose =>
    simp only [C01.sysStep, Option.some.injEq, Prod.mk.injEq] at hstep
    obtain ⟨_, rfl⟩ := hstep; rfl
  | pshutwr =>
    simp only [C01.sysStep, Option.some.injEq, Prod.mk.injEq] at hstep
    obtain ⟨_, rfl⟩ := hstep; rfl
  | prst =>
    simp only [C01.sysStep, Option.some.injEq, Prod.mk.injEq] at hstep
    obtain ⟨_, rfl⟩ := hstep; rfl
  | sync =>
    simp only [C01.sysStep, Option.some.injEq, Prod.mk.injEq] at hstep
    obtain ⟨_, rfl⟩ := hstep; rfl
  | pdgram data =>
    simp only [C01.sysStep, Option.some.injEq, Prod.mk.injEq] at hstep
    obtain ⟨_, rfl⟩ := hstep; rfl
  | setup =>
    simp only [C01.sysStep, Option.some.injEq, Prod.mk.injEq] at hstep
    obtain ⟨_, rfl⟩ := hstep; rfl
  | precv delivered =>
    simp only [C01.sysStep] at hstep
    split at hstep
    · simp only [Option.some.injEq, Prod.mk.injEq] at hstep
      obtain ⟨_, rfl⟩ := hstep; rfl
    · simp only [Option.some.injEq, Prod.mk.injEq] at hstep
      obtain ⟨_, rfl⟩ := hstep; rfl

/-- **The timeout (and signal) clauses that `./check C07` / `./check C16` evaluate on the implementation's
blocking socket operations are a theorem of the model.**  For every mode flag, every history of `Send` /
`Receive` / `SendTo` / `ReceiveFrom` / `Listen` calls with any payloads, buffer sizes and timeouts, every
scripted answer of the operating system to every `poll` and `send` (readiness after any delay, never,
signals at any time and in any number, failures, short writes of any pattern) and every state `m` of the
environment, the observations of the model are accepted: with `T < 0` only unlimited polls and never
'nothing'; with `T = 0` only zero polls and no virtual time passes; with `T > 0` every poll argument lies in
`[0, T - elapsed]` (in fact it IS the remaining budget), the operation blocks no longer than `T` in total
however many waits, partial sends or interruptions it needs, and reports 'nothing' only at `start + T`; a
signal alone never makes a call fail.  `histOk` restricts the domain, not the clauses (`opOk`). -/
theorem model_satisfies_specM (md : Mode) (history : List C01.Op) (hok : histOk history = true) (m : C01.Sys) :
    ∃ s, specRunM md () (C01.modelTrace m history) = .ok s := by
  induction history generalizing m with
  | nil => exact ⟨(), rfl⟩
  | cons op ops ih =>
    simp only [histOk, List.all_cons, Bool.and_eq_true] at hok
    simp only [C01.modelTrace]
    cases hs : C01.sysStep m op with
    | none => exact ⟨(), rfl⟩
    | some r =>
      obtain ⟨m', o⟩ := r
      have h1 := step_ok md m op hok.1 hs
      obtain ⟨s, hs'⟩ := ih hok.2 m'
      exact ⟨s, by simp only [specRunM, h1]; exact hs'⟩

/-- the predicate of `./check C07` on the socket operations accepts every trace of the model -/
theorem model_satisfies_spec (history : List C01.Op) (hok : histOk history = true) :
    ∃ s, specRun () (C01.modelTrace {} history) = .ok s :=
  model_satisfies_specM c07 history hok {}

/-! ### non-vacuity: a history the hypothesis admits, and traces the predicate rejects -/

def exampleHistory : List C01.Op := C01.exampleHistory ++ [
  .recv 4 7 [.eintr 2, .eintr 3, .timedOut] (.take 1),                 -- limited: polls 7, 5, 2; nothing at 7 ms
  .recv 4 7 [.eintr 2, .ready 9] (.take 1),                            -- the event comes after the deadline
  .send [1, 2, 3] 9 [.ready 2, .eintr 3, .ready 1, .ready 7] [.accept 1, .accept 1],   -- SendSome: 9, 7, 4, 3
  .listen (-1) [.eintr 5, .eintr 5, .ready 0] none,
  .recvfrom 2 2147483647 [.eintr 2147483646, .timedOut] (.take 0)]

example : histOk exampleHistory = true := by decide
example : (specRun () (C01.modelTrace {} exampleHistory)).toBool = true := by decide
example : ((C01.modelTrace {} exampleHistory).map (fun o => pollPairs o.sys)).drop 28 =
    [[(7, .eintr 2), (5, .eintr 3), (2, .timedOut)], [(7, .eintr 2), (5, .ready 9)],
     [(9, .ready 2), (7, .eintr 3), (4, .ready 1), (3, .ready 7)],
     [(-1, .eintr 5), (-1, .eintr 5), (-1, .ready 0)],
     [(2147483647, .eintr 2147483646), (1, .timedOut)]] := by decide

/-- a retry with the ORIGINAL timeout (the seeded change C16_r4_agentH) is rejected -/
example : (match specRun () [{ op := .recv 4 1 .none, sys := [.poll 1 (.eintr 1), .poll 1 .timedOut] }] with
    | .error m => m | .ok _ => "") = "operation with timeout 1 issued poll(1) after 1 ms: over budget" := by decide
/-- 'nothing' before the timeout is rejected -/
example : (specRun () [{ op := .recv 4 5 .none, sys := [.poll 3 .timedOut] }]).toBool = false := by decide
/-- an unlimited operation that polls with a finite timeout, or reports 'nothing', is rejected -/
example : (specRun () [{ op := .listen (-1) (.count 1), sys := [.poll 0 (.ready 0)] }]).toBool = false := by decide
example : (specRun () [{ op := .recvfrom 4 (-1) .none, sys := [.poll (-1) .timedOut] }]).toBool = false := by decide
/-- a zero-timeout operation that blocks is rejected -/
example : (specRun () [{ op := .send [1] 0 (.count 0), sys := [.poll 1 .timedOut] }]).toBool = false := by decide
/-- the hypothesis is needed: beyond the documented domain `T < 2^31` ms the poll argument is clamped and
the wait reports "timed out" before `T` -/
example : histOk [.recv 1 2147483648 [.timedOut] (.take 0)] = false := by decide
example : (specRun () (C01.modelTrace {} [.recv 1 2147483648 [.timedOut] (.take 0)])).toBool = false := by decide

end SockModel.Spec.C07

/-! ## Driver::Step: the predicate

One `Obs` per line of a `todos` transcript.  A step is observed as `begin <clock>`, then for every task
the library invoked `ran <id> <clock>`, the socket wait `poll <timeout ms> <clock>`, and `end <clock>`; the
clock is observed, never simulated.  The reference scheduler `RefSched.SpSt` of `Spec/C06.lean` (a bag of
(task, due time, scheduling order), maintained from the operation lines and the bodies of the tasks
reported as run) tells what is pending. -/
namespace SockModel.Spec.C07.Step
open SockModel SockModel.Deadline SockModel.ToDos SockModel.ToDos.RefSched

/-- one `-> ...` line inside a step (`none` = the field is not a numeral) -/
inductive Item where
  | begin (n : Option Int)
  | ran (id : Option Nat) (now : Option Int)
  | poll (ms : Option Int) (atNs : Option Int)
  | fin (n : Option Int)                         -- `end n`
  | crash (w : String)
  | hang (w : String)
  | other
  deriving Repr, DecidableEq

/-- one operation line with what was observed after it -/
inductive Obs where
  /-- an operation outside a step; `stray` = a `crash` / `hang` / `ran` line reported after it -/
  | user (op : Op) (stray : Option String)
  | step (t : Int) (items : List Item)
  /-- the harness process crashed / hung between operations -/
  | abort (msg : String)
  deriving Repr

/-- what the observer has seen of the current step -/
structure Acc where
  sp : SpSt
  pollAt : Int               -- the clock at the (last) socket wait
  ranCount : Nat := 0
  polls : List Int := []     -- timeouts of the socket waits, in order

def stepItem (a : Acc) : Item → Except String Acc
  | .ran (some id) (some now) =>
    if a.polls ≠ [] then .error "task invoked after the socket wait of the same step"
    else match a.sp.ran id now with
      | .ok sp => .ok { a with sp := sp, ranCount := a.ranCount + 1 }
      | .error e => .error e
  | .ran _ _ => .error "bad ran observation"
  | .poll (some ms) (some atNs) => .ok { a with polls := a.polls ++ [ms], pollAt := atNs }
  | .poll _ _ => .error "bad poll observation"
  | .fin (some n) =>
    if n < a.sp.now then .error "clock went backwards"
    -- C07: Step(T >= 0) blocks no longer than T in total (virtual time spent outside tasks is the poll)
    else .ok { a with sp := { a.sp with now := n } }
  | .fin none => .error "bad end"
  | .crash w => .error ("crash: " ++ w)
  | .hang w => .error ("hang: " ++ w)
  | _ => .ok a

def stepItems (a : Acc) : List Item → Except String Acc
  | [] => .ok a
  | i :: is => match stepItem a i with | .ok a' => stepItems a' is | .error e => .error e

def emin (acc : Option Int) (p : Pending) : Option Int :=
  match acc with
  | none => some p.when
  | some a => some (min a p.when)

/-- due time of the earliest pending ToDo -/
def earliest (pend : List Pending) : Option Int := pend.foldl emin none

/-- C07 on the socket wait of a step with timeout `t`: bounded by `t` from above; never unlimited and never
past the due time of the earliest pending ToDo; the full timeout when idle -/
def waitClause (t : Int) (a : Acc) : Except String (List String) :=
  match a.polls with
  | [ms] =>
    if t ≥ 0 ∧ (ms < 0 ∨ ms > t) then .error s!"step({t}) waits {ms} ms for sockets: not bounded by its timeout"
    else match earliest a.sp.pend with
      | some w =>
        if ms < 0 then .error s!"step waits without limit although a ToDo is due at {w}"
        else if w > a.pollAt ∧ a.pollAt + ms * nsPerMs > w then
          .error s!"step sleeps {ms} ms from {a.pollAt}, past the due time {w} of the earliest pending ToDo"
        else .ok ["wait.todo"]
      | none =>
        if a.ranCount = 0 ∧ ms ≠ t ∧ ¬ (t < 0 ∧ ms < 0) then
          .error s!"idle step({t}) waits {ms} ms instead of the full timeout"
        else .ok ["wait.full"]
  | _ => .error s!"expected exactly one socket wait per step, saw {a.polls.length}"

/-- spec check of one step's observations -/
def specStepObs (sp : SpSt) (t : Int) (items : List Item) : Except String (SpSt × List String) :=
  match items with
  | .begin (some start) :: _ =>
    if start < sp.now then .error "clock went backwards"
    else
      let dueAtStart := sp.pend.any (fun p => p.when ≤ start)
      match stepItems { sp := { sp with now := start }, pollAt := start } items with
      | .error e => .error e
      | .ok a =>
        -- promptness: a step that starts at/after the due time of some pending task runs at least one
        if dueAtStart ∧ a.ranCount = 0 then .error s!"step at {start} ran nothing although a task was due"
        else match waitClause t a with
          | .error e => .error e
          | .ok tags => .ok (a.sp, tags)
  | .begin none :: _ => .error "bad begin"
  | _ => .error "missing begin observation"

/-- the predicate for one line of the transcript; the second component are coverage tags -/
def specStep (sp : SpSt) : Obs → Except String (SpSt × List String)
  | .step t items => specStepObs sp t items
  | .user _ (some o) => .error ("unexpected observation outside a step: " ++ o)
  | .user op none => .ok (sp.user op, [])
  | .abort msg => .error msg

def specRun (sp : SpSt) : List Obs → Except String SpSt
  | [] => .ok sp
  | o :: os => match specStep sp o with | .ok (sp', _) => specRun sp' os | .error e => .error e

/-! ## Driver::Step: the observations of the MODEL -/

def evItem (atNs : Int) : Event → Item
  | .ran id _ now _ _ => .ran (some id) (some now)
  | .poll ms => .poll (some ms) (some atNs)
  | .fuel => .other

/-- the clock at which `step` hands over to the socket wait -/
def pollAtOf (fuel : Nat) (t : Int) (m : St) : Int :=
  if m.todos.isEmpty then m.now else (stepTodos fuel (Deadline.make t m.now) m).2.now

/-- what the model lets an observer see of one operation: for a step the clock at entry, the events it
appended to its log (oldest first - exactly what the driver compares the implementation with), the clock
at exit -/
def modelObs (fuel : Nat) (m : St) : Op → Obs
  | .step t =>
    let m' := userOp true fuel m (.step t)
    .step t (.begin (some m.now) ::
      ((m'.log.take (m'.log.length - m.log.length)).reverse.map (evItem (pollAtOf fuel t m)) ++ [.fin (some m'.now)]))
  | op => .user op none

def modelTrace (fuel : Nat) (m : St) : List Op → List Obs
  | [] => []
  | op :: ops => modelObs fuel m op :: modelTrace fuel (userOp true fuel m op) ops


/-! ## Driver::Step: the model satisfies the predicate -/

theorem foldl_emin_some (a : Int) (l : List Pending) :
    ∃ w, l.foldl emin (some a) = some w ∧ w ≤ a ∧ (∀ p ∈ l, w ≤ p.when) ∧ (w = a ∨ ∃ p ∈ l, w = p.when) := by
  induction l generalizing a with
  | nil => exact ⟨a, rfl, Int.le_refl _, by simp, Or.inl rfl⟩
  | cons p l ih =>
    obtain ⟨w, h1, h2, h3, h4⟩ := ih (min a p.when)
    refine ⟨w, by simp only [List.foldl_cons, emin]; exact h1, by omega, ?_, ?_⟩
    · intro q hq
      rcases List.mem_cons.mp hq with rfl | hq
      · omega
      · exact h3 q hq
    · rcases h4 with h4 | ⟨q, hq, h4⟩
      · by_cases hle : a ≤ p.when
        · left; omega
        · right; exact ⟨p, List.mem_cons_self, by omega⟩
      · exact Or.inr ⟨q, List.mem_cons_of_mem _ hq, h4⟩

theorem earliest_nil : earliest [] = none := rfl

theorem earliest_cons (p : Pending) (l : List Pending) :
    ∃ w, earliest (p :: l) = some w ∧ (∀ q ∈ p :: l, w ≤ q.when) ∧ ∃ q ∈ p :: l, w = q.when := by
  obtain ⟨w, h1, h2, h3, h4⟩ := foldl_emin_some p.when l
  refine ⟨w, by simp only [earliest, List.foldl_cons, emin]; exact h1, ?_, ?_⟩
  · intro q hq
    rcases List.mem_cons.mp hq with rfl | hq
    · exact h2
    · exact h3 q hq
  · rcases h4 with h4 | ⟨q, hq, h4⟩
    · exact ⟨p, List.mem_cons_self, h4⟩
    · exact ⟨q, List.mem_cons_of_mem _ hq, h4⟩

def ranOf : Event → Option (Nat × Int)
  | .ran id _ now _ _ => some (id, now)
  | _ => none

theorem ransOf_eq (pre : List Event) : ransOf pre = pre.reverse.filterMap ranOf := by
  unfold ransOf
  congr 1

/-- the observer's fold over the task invocations of a step is the replay of `Spec/C06.lean` -/
theorem stepItems_rans (atNs : Int) (L : List Event) (hnp : ∀ ev ∈ L, ∀ ms, ev ≠ .poll ms) (sp : SpSt) (pa : Int)
    (rc : Nat) (sp' : SpSt) (h : replayRans sp (L.filterMap ranOf) = .ok sp') (rest : List Item) :
    ∃ n, n = rc + (L.filterMap ranOf).length ∧
      stepItems { sp := sp, pollAt := pa, ranCount := rc, polls := [] } (L.map (evItem atNs) ++ rest)
        = stepItems { sp := sp', pollAt := pa, ranCount := n, polls := [] } rest := by
  induction L generalizing sp rc with
  | nil =>
    simp only [List.filterMap_nil, replayRans] at h
    cases h
    exact ⟨rc, by simp, rfl⟩
  | cons ev L ih =>
    have hnp' : ∀ ev ∈ L, ∀ ms, ev ≠ .poll ms := fun e he => hnp e (List.mem_cons_of_mem _ he)
    cases ev with
    | poll ms => exact absurd rfl (hnp _ List.mem_cons_self ms)
    | fuel =>
      have hf : (Event.fuel :: L).filterMap ranOf = L.filterMap ranOf := rfl
      rw [hf] at h ⊢
      obtain ⟨n, hn, heq⟩ := ih hnp' sp rc h
      exact ⟨n, hn, by simp only [List.map_cons, List.cons_append, stepItems, evItem, stepItem]; exact heq⟩
    | ran id w now rs seq =>
      have hf : (Event.ran id w now rs seq :: L).filterMap ranOf = (id, now) :: L.filterMap ranOf := rfl
      rw [hf] at h ⊢
      simp only [replayRans] at h
      cases hr : sp.ran id now with
      | error e => rw [hr] at h; cases h
      | ok sp1 =>
        rw [hr] at h
        simp only at h
        obtain ⟨n, hn, heq⟩ := ih hnp' sp1 (rc + 1) h
        refine ⟨n, by simp only [List.length_cons]; omega, ?_⟩
        simp only [List.map_cons, List.cons_append, stepItems, evItem, stepItem, ne_eq, not_true_eq_false,
          if_false, hr]
        exact heq

theorem ransOf_snoc_ne (pre : List Event) (id : Nat) (w now : Int) (rs : List Entry) (seq : Nat) :
    ransOf (pre ++ [.ran id w now rs seq]) ≠ [] := by
  rw [ransOf_eq]
  simp [ranOf]

/-- the log segment of `StepTodos`: no socket wait in it; and if no task was invoked the list is untouched
and (given fuel) its front is not due -/
theorem stepTodos_log (fuel : Nat) (d : Deadline) (s : St) :
    ∃ pre, (stepTodos fuel d s).2.log = pre ++ s.log ∧ (∀ ev ∈ pre, ∀ ms, ev ≠ .poll ms) ∧
      (ransOf pre = [] → (stepTodos fuel d s).2.todos = s.todos ∧
        (0 < fuel → ∀ f rest, s.todos = f :: rest → f.when - d.now > 0)) := by
  have hlogf : ∀ (ops : List BodyOp) (s0 : St), (ops.foldl applyOp s0).log = s0.log := by
    intro ops
    induction ops with
    | nil => intro s0; rfl
    | cons op ops ih2 =>
      intro s0
      simp only [List.foldl_cons]
      rw [ih2]
      cases op <;> simp only [applyOp] <;> (try split) <;> rfl
  induction fuel generalizing d s with
  | zero =>
    refine ⟨[.fuel], rfl, ?_, fun _ => ⟨rfl, fun h => absurd h (Nat.lt_irrefl 0)⟩⟩
    intro ev hev ms h; simp at hev; subst hev; cases h
  | succ fuel ih =>
    unfold stepTodos
    cases ht : s.todos with
    | nil =>
      simp only
      exact ⟨[], by simp, by simp, fun _ => ⟨ht, fun _ f rest h => by cases h⟩⟩
    | cons front rest0 =>
      simp only
      split
      · rename_i hnd
        exact ⟨[], by simp, by simp, fun _ => ⟨ht, fun _ f rest h => by cases h; exact hnd⟩⟩
      · have hone : ∀ ev ∈ [Event.ran front.id front.when d.now rest0 front.seq], ∀ ms, ev ≠ .poll ms := by
          intro ev hev ms h; simp at hev; subst hev; cases h
        split
        · refine ⟨[.ran front.id front.when d.now rest0 front.seq], by rw [hlogf]; rfl, hone, ?_⟩
          intro h; exact absurd h (ransOf_snoc_ne [] _ _ _ _ _)
        · split
          · obtain ⟨pre, hpre, hnp, _⟩ := ih (d.tick ((s.body front.id).foldl applyOp
                { s with todos := rest0, log := .ran front.id front.when d.now rest0 front.seq :: s.log }).now)
              ((s.body front.id).foldl applyOp
                { s with todos := rest0, log := .ran front.id front.when d.now rest0 front.seq :: s.log })
            refine ⟨pre ++ [.ran front.id front.when d.now rest0 front.seq], by rw [hpre, hlogf]; simp, ?_, ?_⟩
            · intro ev hev
              rcases List.mem_append.mp hev with h | h
              · exact hnp ev h
              · exact hone ev h
            · intro h; exact absurd h (ransOf_snoc_ne pre _ _ _ _ _)
          · refine ⟨[.ran front.id front.when d.now rest0 front.seq], by rw [hlogf]; rfl, hone, ?_⟩
            intro h; exact absurd h (ransOf_snoc_ne [] _ _ _ _ _)

theorem pollSockets_facts (t : Int) (s : St) :
    (pollSockets true t s).log = .poll (toMsec t) :: s.log ∧ s.now ≤ (pollSockets true t s).now := by
  unfold pollSockets
  simp only [if_true]
  split
  · exact ⟨rfl, Int.le_refl _⟩
  · split
    · rename_i hpos
      refine ⟨rfl, ?_⟩
      have := Int.mul_nonneg (Int.le_of_lt hpos) (by decide : (0 : Int) ≤ nsPerMs)
      simp only; omega
    · exact ⟨rfl, Int.le_refl _⟩

theorem toMsec_range {x : Int} (h : 0 ≤ x) : 0 ≤ toMsec x ∧ toMsec x ≤ x := by
  unfold toMsec
  split
  · unfold intMax at *; omega
  · split
    · unfold intMax at *; omega
    · omega

theorem make_now (t now : Int) : (Deadline.make t now).now = now := by
  unfold Deadline.make; split
  · rfl
  · split <;> rfl

theorem specSt_now_eta (sp : SpSt) (n : Int) (h : sp.now = n) : ({ sp with now := n } : SpSt) = sp := by
  subst h; rfl

/-- the domain of a step: the timeout is in the documented range `T < 2^31` ms (beyond it `ToMsec` clamps
the idle wait, which then is not "the full T") -/
def opOk : Op → Bool
  | .step t => decide (t ≤ intMax)
  | _ => true

theorem waitClause_ok {t : Int} {a : Acc} {ms : Int} (hp : a.polls = [ms]) (h1 : t ≥ 0 → 0 ≤ ms ∧ ms ≤ t)
    (h2 : ∀ w, earliest a.sp.pend = some w → 0 ≤ ms ∧ ¬ (w > a.pollAt ∧ a.pollAt + ms * nsPerMs > w))
    (h3 : earliest a.sp.pend = none → a.ranCount = 0 → (ms = t ∨ (t < 0 ∧ ms < 0))) :
    ∃ tags, waitClause t a = .ok tags := by
  unfold waitClause
  rw [hp]
  simp only
  rw [if_neg (by intro ⟨h0, h⟩; have := h1 h0; omega)]
  cases he : earliest a.sp.pend with
  | none =>
    simp only
    rw [if_neg (by
      intro ⟨hr, hne, hnn⟩
      rcases h3 he hr with h | h
      · exact hne h
      · exact hnn h)]
    exact ⟨_, rfl⟩
  | some w =>
    obtain ⟨g1, g2⟩ := h2 w he
    simp only
    rw [if_neg (by omega), if_neg g2]
    exact ⟨_, rfl⟩

theorem specStepObs_ok {sp : SpSt} {t start : Int} {rest : List Item} {a : Acc} {tags : List String}
    (h0 : ¬ start < sp.now)
    (hit : stepItems { sp := { sp with now := start }, pollAt := start } rest = .ok a)
    (hpr : ¬ ((sp.pend.any fun p => decide (p.when ≤ start)) = true ∧ a.ranCount = 0))
    (hw : waitClause t a = .ok tags) :
    specStepObs sp t (.begin (some start) :: rest) = .ok (a.sp, tags) := by
  simp only [specStepObs, if_neg h0, stepItems, stepItem, hit, if_neg hpr, hw]

/-- one `Step` of the model is accepted clause by clause, and observer and model stay related -/
theorem step_accepted (fuel : Nat) (hf : 0 < fuel) (t : Int) (ht : t ≤ intMax) (m : St) (sp : SpSt) (inv : TInv m)
    (r : R m sp) :
    ∃ sp' tags, specStep sp (modelObs fuel m (.step t)) = .ok (sp', tags) ∧ R (userOp true fuel m (.step t)) sp' := by
  have hsp0 : ({ sp with now := m.now } : SpSt) = sp := specSt_now_eta sp m.now r.now
  have h0 : ¬ m.now < sp.now := by rw [r.now]; exact Int.lt_irrefl _
  simp only [modelObs, specStep]
  simp only [userOp, step]
  by_cases hemp : m.todos.isEmpty = true
  · -- no ToDo pending: the socket wait gets the timeout itself
    have hnil : m.todos = [] := by simpa using hemp
    have hpend : sp.pend = [] := by
      have := r.pend; rw [hnil] at this; simpa using this.eq_nil
    obtain ⟨hlog, hmono⟩ := pollSockets_facts t m
    simp only [hemp, if_true, hlog, pollAtOf]
    have htake : (Event.poll (toMsec t) :: m.log).take ((Event.poll (toMsec t) :: m.log).length - m.log.length)
        = [Event.poll (toMsec t)] := by
      have : (Event.poll (toMsec t) :: m.log).length - m.log.length = 1 := by simp
      rw [this]; rfl
    rw [htake]
    have hit : stepItems { sp := { sp with now := m.now }, pollAt := m.now }
        ([Event.poll (toMsec t)].reverse.map (evItem m.now) ++ [.fin (some (pollSockets true t m).now)])
        = .ok { sp := { sp with now := (pollSockets true t m).now }, pollAt := m.now, ranCount := 0, polls := [toMsec t] } := by
      rw [hsp0]
      simp only [List.reverse_cons, List.reverse_nil, List.nil_append, List.map_cons, List.map_nil, List.cons_append,
        evItem, stepItems, stepItem]
      rw [if_neg (by rw [r.now]; omega)]
    obtain ⟨tags, hw⟩ := waitClause_ok (t := t) (ms := toMsec t)
      (a := { sp := { sp with now := (pollSockets true t m).now }, pollAt := m.now, ranCount := 0, polls := [toMsec t] })
      rfl (fun h0 => by have := toMsec_range h0; omega)
      (fun w hw => by simp only [hpend, earliest_nil] at hw; cases hw)
      (fun _ _ => by
        by_cases hneg : t < 0
        · exact Or.inr ⟨hneg, C01.toMsec_neg hneg⟩
        · exact Or.inl (SendLoop.toMsec_small (by omega) ht))
    refine ⟨_, tags, specStepObs_ok h0 hit ?_ hw, R_pollSockets true t r⟩
    rw [hpend]; simp
  · -- ToDos pending: `StepTodos`, then the socket wait with what it returned
    have hne : m.todos.isEmpty = false := by simpa using hemp
    have hmake := make_now t m.now
    obtain ⟨pre, sp1, hlog, hrep, r1⟩ := stepTodos_accepted fuel (Deadline.make t m.now) m sp inv r hmake
    obtain ⟨pre', hlog', hnp, hnoran⟩ := stepTodos_log fuel (Deadline.make t m.now) m
    have hpp : pre' = pre := List.append_cancel_right (hlog'.symm.trans hlog)
    rw [hpp] at hnp hnoran
    have hsorted := (inv_stepTodos fuel (Deadline.make t m.now) inv).sorted
    cases hst : stepTodos fuel (Deadline.make t m.now) m with
    | mk ms0 s' =>
      rw [hst] at hlog r1 hnoran hsorted
      simp only at hlog r1 hnoran hsorted
      obtain ⟨hplog, hmono⟩ := pollSockets_facts ms0 s'
      simp only [hne, Bool.false_eq_true, if_false, hst, hplog, pollAtOf, hlog]
      have htake : (Event.poll (toMsec ms0) :: (pre ++ m.log)).take
          ((Event.poll (toMsec ms0) :: (pre ++ m.log)).length - m.log.length) = Event.poll (toMsec ms0) :: pre := by
        have hl : (Event.poll (toMsec ms0) :: (pre ++ m.log)).length - m.log.length = (Event.poll (toMsec ms0) :: pre).length := by
          simp only [List.length_cons, List.length_append]; omega
        rw [hl]
        have : Event.poll (toMsec ms0) :: (pre ++ m.log) = (Event.poll (toMsec ms0) :: pre) ++ m.log := rfl
        rw [this, List.take_left']
        rfl
      rw [htake]
      rw [ransOf_eq] at hrep hnoran
      obtain ⟨n, hn, heq⟩ := stepItems_rans s'.now pre.reverse
        (fun ev hev => hnp ev (List.mem_reverse.mp hev)) sp m.now 0 sp1 hrep
        [.poll (some (toMsec ms0)) (some s'.now), .fin (some (pollSockets true ms0 s').now)]
      simp only [Nat.zero_add] at hn
      have hit : stepItems { sp := { sp with now := m.now }, pollAt := m.now }
          ((Event.poll (toMsec ms0) :: pre).reverse.map (evItem s'.now) ++ [.fin (some (pollSockets true ms0 s').now)])
          = .ok { sp := { sp1 with now := (pollSockets true ms0 s').now }, pollAt := s'.now, ranCount := n,
                  polls := [toMsec ms0] } := by
        rw [hsp0]
        simp only [List.reverse_cons, List.map_append, List.map_cons, List.map_nil, List.append_assoc, List.cons_append,
          List.nil_append, evItem]
        rw [heq]
        simp only [stepItems, stepItem, List.nil_append]
        rw [if_neg (by rw [r1.now]; omega)]
      -- promptness
      have hprompt : ¬ ((sp.pend.any fun p => decide (p.when ≤ m.now)) = true ∧ n = 0) := by
        intro ⟨hdue, hn0⟩
        have hk : pre.reverse.filterMap ranOf = [] := List.eq_nil_of_length_eq_zero (by omega)
        obtain ⟨_, hfront⟩ := hnoran hk
        obtain ⟨p, hp, hpw⟩ := List.any_eq_true.mp hdue
        have hpw' : p.when ≤ m.now := of_decide_eq_true hpw
        have hp' := r.pend.mem_iff.mp hp
        obtain ⟨e, he, rfl⟩ := List.mem_map.mp hp'
        cases htd : m.todos with
        | nil => rw [htd] at he; cases he
        | cons f rest =>
          have hnd := hfront hf f rest htd
          rw [hmake] at hnd
          have hs := inv.sorted
          rw [htd] at hs he
          have hs' := List.pairwise_cons.mp hs
          rcases List.mem_cons.mp he with rfl | he
          · simp only [key] at hpw'; omega
          · have := hs'.1 e he; simp only [key] at hpw'; omega
      -- the socket wait
      obtain ⟨tags, hw⟩ := waitClause_ok (t := t) (ms := toMsec ms0)
        (a := { sp := { sp1 with now := (pollSockets true ms0 s').now }, pollAt := s'.now, ranCount := n,
                polls := [toMsec ms0] })
        rfl
        (fun h0 => by
          have := stepTodos_bounded fuel t h0 (Deadline.make t m.now) m hmake (DBound_make t m.now) ms0 s' hst
          have := toMsec_range this.1; omega)
        (fun w hw => by
          simp only at hw
          cases htd' : s'.todos with
          | nil =>
            have hpend : sp1.pend = [] := by
              have := r1.pend; rw [htd'] at this; simpa using this.eq_nil
            rw [hpend, earliest_nil] at hw; cases hw
          | cons f rest =>
            obtain ⟨h0, hpast⟩ := stepTodos_not_past fuel t m ms0 s' hst f rest htd'
            have hperm := r1.pend
            rw [htd'] at hperm hsorted
            cases hpd : sp1.pend with
            | nil => rw [hpd] at hperm; have := hperm.symm.eq_nil; simp at this
            | cons p ps =>
              obtain ⟨w', hw', hmin, q, hq, hwq⟩ := earliest_cons p ps
              rw [hpd, hw'] at hw
              cases hw
              -- the earliest pending due time is that of the front of the model's list
              have hs' := List.pairwise_cons.mp hsorted
              rw [hpd] at hperm
              have hfm : key f ∈ p :: ps := hperm.mem_iff.mpr (by simp)
              have h1 := hmin _ hfm
              have hq' := hperm.mem_iff.mp hq
              obtain ⟨e, he, hqe⟩ := List.mem_map.mp hq'
              have h2 : f.when ≤ e.when := by
                rcases List.mem_cons.mp he with rfl | he
                · exact Int.le_refl _
                · exact hs'.1 e he
              have hqw : q.when = e.when := by rw [← hqe]; rfl
              have hkf : (key f).when = f.when := rfl
              refine ⟨h0, ?_⟩
              intro ⟨hgt, hover⟩
              simp only at hgt hover
              have := hpast (by omega)
              omega)
        (fun hnone hn0 => by
          simp only at hnone hn0
          exfalso
          have hk : pre.reverse.filterMap ranOf = [] := List.eq_nil_of_length_eq_zero (by omega)
          have htd := (hnoran hk).1
          cases hpd : sp1.pend with
          | nil =>
            have hperm := r1.pend
            rw [hpd] at hperm
            have := hperm.symm.eq_nil
            rw [htd] at this
            have hmt : m.todos = [] := by simpa using this
            rw [hmt] at hne; simp at hne
          | cons p ps =>
            obtain ⟨w', hw', _⟩ := earliest_cons p ps
            rw [hpd, hw'] at hnone; cases hnone)
      exact ⟨_, tags, specStepObs_ok h0 hit hprompt hw, R_pollSockets true ms0 r1⟩

/-- **The clauses that `./check C07` (and `./check C06`) evaluate on the implementation's `Driver::Step`
transcripts are a theorem of the model**: for every history of construct / Shift / Cancel / drop / clock / Step
operations of any length, with arbitrary task bodies (re-scheduling, cancelling, creating and dropping ToDos
and letting time pass from inside tasks), every timeout and every due time (also >= 2^31 ms ahead), the
observations of the model are accepted: every task invocation by the reference scheduler of `Spec/C06.lean`
(scheduled, not early, in due order), a step that starts with a due task runs one, no task after the socket
wait, exactly one socket wait per step, its timeout within `[0, T]` for `T >= 0`, never unlimited and never past
the due time of the earliest pending ToDo while one is pending, the full `T` when idle, and the clock never
runs backwards.  `fuel` bounds the number of task invocations per step (the harness stops at 3000). -/
theorem model_satisfies_spec (fuel : Nat) (hf : 0 < fuel) (history : List Op) (hok : history.all opOk = true) :
    ∃ s, specRun {} (modelTrace fuel {} history) = .ok s := by
  suffices H : ∀ (ops : List Op) (m : St) (sp : SpSt), TInv m → R m sp → ops.all opOk = true →
      ∃ s, specRun sp (modelTrace fuel m ops) = .ok s from
    H history {} {} inv_init ⟨List.Perm.refl _, rfl, rfl, rfl, rfl, rfl⟩ hok
  intro ops
  induction ops with
  | nil => intro m sp _ _ _; exact ⟨sp, rfl⟩
  | cons op ops ih =>
    intro m sp inv r hok
    simp only [List.all_cons, Bool.and_eq_true] at hok
    have inv' := inv_userOp true fuel inv op
    simp only [modelTrace, specRun]
    have huser : ∀ (o : Op), (∀ t, o ≠ .step t) → modelObs fuel m o = .user o none := by
      intro o ho; cases o <;> first | rfl | exact absurd rfl (ho _)
    cases op with
    | step t =>
      obtain ⟨sp', tags, h1, r'⟩ := step_accepted fuel hf t (of_decide_eq_true hok.1) m sp inv r
      rw [h1]
      exact ih _ _ inv' r' hok.2
    | new id w body =>
      rw [huser _ (by intro t h; cases h)]
      exact ih _ _ inv' (R_user true fuel inv r _ (by intro t h; cases h)) hok.2
    | newIn id ms body =>
      rw [huser _ (by intro t h; cases h)]
      exact ih _ _ inv' (R_user true fuel inv r _ (by intro t h; cases h)) hok.2
    | newIdle id body =>
      rw [huser _ (by intro t h; cases h)]
      exact ih _ _ inv' (R_user true fuel inv r _ (by intro t h; cases h)) hok.2
    | call o =>
      rw [huser _ (by intro t h; cases h)]
      exact ih _ _ inv' (R_user true fuel inv r _ (by intro t h; cases h)) hok.2
    | clock ns =>
      rw [huser _ (by intro t h; cases h)]
      exact ih _ _ inv' (R_user true fuel inv r _ (by intro t h; cases h)) hok.2


/-! ### non-vacuity: a history the hypothesis admits, and observations the predicate rejects -/

def exampleHistory : List Op := [
  .clock 1000000000,
  .new 1 1003000000 [.adv 2000000],                  -- due in 3 ms; its body takes 2 ms
  .new 2 1003000000 [.shift 2 5000000000],           -- tied with 1; re-schedules itself far ahead
  .new 3 1000500000 [.newIn 4 1],                    -- due in 0.5 ms; creates ToDo 4 from inside the task
  .step 17,                                          -- waits 0 ms (sub-ms remainder), runs nothing
  .step 17, .step (-1), .step 0, .call (.cancel 2), .step 5, .step 2147483647,
  .new 5 9000000000000000 [], .step (-1)]            -- due more than 2^31 ms ahead: clamped, not unlimited

example : exampleHistory.all opOk = true := by decide
example : (specRun {} (modelTrace 10 {} exampleHistory)).toBool = true := by decide

/-- a wait that is not bounded by the timeout (the seeded change C07_agentB) is rejected -/
example : (specStep {} (.step 1 [.begin (some 0), .poll (some (-3)) (some 0), .fin (some 0)])).toBool = false := by decide
/-- a wait past the due time of the earliest pending ToDo is rejected -/
example : (specRun {} [.user (.new 1 3000000 []) none,
    .step 17 [.begin (some 0), .poll (some 5) (some 0), .fin (some 5000000)]]).toBool = false := by decide
/-- an unlimited wait while a ToDo is pending (finding F6) is rejected -/
example : (specRun {} [.user (.new 1 3000000 []) none,
    .step (-1) [.begin (some 0), .poll (some (-1)) (some 0), .fin (some 0)]]).toBool = false := by decide
/-- an idle step that does not wait the full timeout is rejected -/
example : (specStep {} (.step 17 [.begin (some 0), .poll (some 16) (some 0), .fin (some 16000000)])).toBool = false := by decide
/-- a due task that is not run is rejected -/
example : (specRun {} [.user (.new 1 0 []) none,
    .step 0 [.begin (some 0), .poll (some 0) (some 0), .fin (some 0)]]).toBool = false := by decide
/-- the hypothesis is needed: beyond the documented domain the idle wait is clamped -/
example : (specRun {} (modelTrace 10 {} [.step 2147483648])).toBool = false := by decide

end SockModel.Spec.C07.Step

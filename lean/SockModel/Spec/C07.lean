import SockModel.Spec.C01
import SockModel.Spec.C06
/-!
# Spec.C07 - the timeout clauses as an executable predicate over typed observations, and the proof that
the model satisfies them for every history

Two transcripts feed `./check C07`, so there are two predicates:

* **blocking socket operations** (harness `sockops`, driver mode `C07s`; the same functions with the other
  mode flag are the predicate of C16, `Spec/C16.lean`): `specStepM` / `specRunM` over the typed observations
  of `Spec/C01.lean` (`Obs` = one operation line with the intercepted system calls and the result line).
  The clauses (`specTimeouts`): with `T < 0` only unlimited polls and never 'nothing'; with `T = 0` only
  zero polls and no time passes; with `T > 0` every poll argument is within `[0, T - elapsed]`, the
  operation blocks no longer than `T` in total and reports 'nothing' only at `start + T`.  The virtual time
  is *observed*: `adv t a` is what the interposed `poll(t)` answered with `a` let pass.
* **`Driver::Step`** (harness `todos`, driver mode `C06`; the file `Drive/C06.lean` serves C06 and C07):
  `Step.specStep` / `Step.specRun` over `Step.Obs` - per step the typed lines `begin`, `ran`, `poll`, `end`.
  The C07 clauses: exactly one socket wait per step, bounded by `T` for `T >= 0`, never unlimited and never
  past the due time of the earliest pending ToDo while one is pending, the full `T` when idle; together
  with the C06 clauses of the step (promptness, no task after the wait, monotone clock) and the reference
  scheduler of `Spec/C06.lean` for every `ran`.

`model_satisfies_specM` and `Step.model_satisfies_spec` (re-exported in `Props/C07.lean`): both predicates
accept every trace the model can produce.
-/
namespace SockModel.Spec.C07
open SockModel SockModel.SendLoop SockModel.Deadline
open SockModel.Spec.C01 (SysObs Thrown Ret OpObs Obs hasEintr hasPollFail hasIoFail anySend nosigBad)

/-! ## blocking socket operations: the predicate -/

/-- virtual milliseconds that pass in a `poll(t)` answered with `a` (A-POLL: an event later than the
timeout is a timeout; a timeout lasts `t` ms; a failure takes no time) -/
def adv (t : Int) : PollAns → Int
  | .ready d => if t ≥ 0 ∧ (d : Int) > t then t else d
  | .eintr d => if t ≥ 0 ∧ (d : Int) > t then t else d
  | .timedOut => if t > 0 then t else 0
  | .fail _ => 0

/-- the argument `t` of one `poll`, issued `elapsed` ms into an operation with timeout `T` -/
def pollClause (T elapsed t : Int) : Option String :=
  if T < 0 ∧ t ≥ 0 then some s!"unlimited operation issued a poll with timeout {t}"
  else if T = 0 ∧ t ≠ 0 then some s!"zero-timeout operation issued a poll with timeout {t} (blocks)"
  else if T > 0 ∧ (t < 0 ∨ t > T - elapsed) then
    some s!"operation with timeout {T} issued poll({t}) after {elapsed} ms: over budget"
  else none

/-- every poll of the operation in turn; the result is the virtual time that passed in them -/
def specPolls (T : Int) : Int → List SysObs → Except String Int
  | e, [] => .ok e
  | e, .poll t a :: l =>
    match pollClause T e t with
    | some m => .error m
    | none => specPolls T (e + adv t a) l
  | e, _ :: l => specPolls T e l

/-- the operation as a whole: `nothing` = it returned nullopt / no data / no connection -/
def endClause (T elapsed : Int) (nothing : Bool) : Option String :=
  if T < 0 ∧ nothing then some "operation with unlimited timeout returned 'nothing'"
  else if T > 0 ∧ nothing ∧ elapsed < T then some s!"returned 'nothing' after {elapsed} ms, earlier than its timeout {T}"
  else if T > 0 ∧ elapsed > T then some s!"blocked {elapsed} ms in total, longer than its timeout {T}"
  else if T = 0 ∧ elapsed ≠ 0 then some "zero-timeout operation let time pass"
  else none

/-- the poll timeouts the library passed, against the operation's timeout -/
def specTimeouts (T : Int) (sys : List SysObs) (nothing : Bool) : Option String :=
  match specPolls T 0 sys with
  | .error m => some m
  | .ok e => endClause T e nothing

/-- which property is being decided: C07 judges the timeouts of every operation, C16 those of the
operations that met a signal, and that the signal alone did not make the call fail -/
structure Mode where
  c07 : Bool
  c16 : Bool
  deriving Repr, DecidableEq

def tmoClause (md : Mode) (sys : List SysObs) (T : Int) (nothing : Bool) : Option String :=
  if md.c07 ∨ (md.c16 ∧ hasEintr sys) then specTimeouts T sys nothing else none

def sigClause (md : Mode) (sys : List SysObs) (what : String) (x : Thrown) (logicOk : Bool) : Option String :=
  if md.c16 ∧ hasEintr sys ∧ !hasPollFail sys ∧ !hasIoFail sys ∧ !(logicOk ∧ x = .logic) then
    some s!"a signal made {what} fail: {x.text}" else none

/-- the clauses of the modes C07s / C16 for one operation -/
def opClause (md : Mode) (sys : List SysObs) : OpObs → Option String
  | .send _ T r =>
    match r with
    | .count _ => tmoClause md sys T false
    | .bad => some "bad ret"
    | .threw x => sigClause md sys "Send" x true
    | _ => some "missing result"
  | .recv _ T r =>
    match r with
    | .none => tmoClause md sys T true
    | .data (some _) _ => tmoClause md sys T false
    | .data none _ => some "bad ret"
    | .threw .closed => none
    | .threw x => sigClause md sys "Receive" x false
    | _ => some "missing result"
  | .sendto data T r =>
    match r with
    | .count n => tmoClause md sys T (n = 0 ∧ data.length > 0 ∧ !(anySend sys))
    | .bad => some "bad ret"
    | .threw x => sigClause md sys "SendTo" x true
    | _ => some "missing result"
  | .recvfrom _ T r =>
    match r with
    | .none => tmoClause md sys T true
    | .data _ _ => tmoClause md sys T false
    | .threw x => sigClause md sys "ReceiveFrom" x false
    | _ => some "missing result"
  | .listen T r =>
    match r with
    | .none => tmoClause md sys T true
    | .count _ => tmoClause md sys T false
    | .threw x => sigClause md sys "Listen" x false
    | _ => some "missing result"
  | _ => none

/-- the predicate keeps no book: every clause is about one operation -/
abbrev SpecSt := Unit

/-- the whole predicate for one transcript block: a crash / hang is a failure of every property; no
`send` without `MSG_NOSIGNAL`; then the timeout / signal clauses of the operation -/
def specStepM (md : Mode) (s : SpecSt) (o : Obs) : Except String SpecSt :=
  match o.op with
  | .abort msg => .error msg
  | op =>
    if nosigBad o.sys then .error "a send() without MSG_NOSIGNAL"
    else match opClause md o.sys op with
      | some m => .error m
      | none => .ok s

def specRunM (md : Mode) (s : SpecSt) : List Obs → Except String SpecSt
  | [] => .ok s
  | o :: os => match specStepM md s o with | .ok s' => specRunM md s' os | .error e => .error e

/-- the predicate of `./check C07` (driver mode `C07s`) -/
def c07 : Mode := { c07 := true, c16 := false }
def specStep : SpecSt → Obs → Except String SpecSt := specStepM c07
def specRun : SpecSt → List Obs → Except String SpecSt := specRunM c07


/-! ## blocking socket operations: the model satisfies the predicate

The observations of the MODEL are those of `Spec/C01.lean` (`C01.sysStep` / `C01.modelTrace`: the functions
`send`, `receive`, `sendTo`, `receiveFrom`, `acceptT` of `Model/SendLoop.lean` on arbitrary scripted `poll` /
`send` answers; the `-> sys` lines are the calls the model logged paired with the answers they consumed).
The proof follows the virtual clock through the polls: `Bud T os os' e e'` - between `os` and `os'` the model
consumed the poll answers `ps` with the arguments it logged, the poll clauses hold for them starting `e` ms
into the operation, and `e'` ms have passed afterwards. -/

open SockModel.Spec.C01 (Run Step1 tcpRecvObs udpRecvObs accRecvObs)

/-- the poll clauses on (argument, answer) pairs -/
def specPollsP (T : Int) : Int → List (Int × PollAns) → Except String Int
  | e, [] => .ok e
  | e, (t, a) :: l =>
    match pollClause T e t with
    | some m => .error m
    | none => specPollsP T (e + adv t a) l

def pollPairs : List SysObs → List (Int × PollAns)
  | [] => []
  | .poll t a :: l => (t, a) :: pollPairs l
  | .send _ _ _ :: l => pollPairs l
  | .recv _ _ :: l => pollPairs l

theorem specPolls_pairs (T : Int) (e : Int) (l : List SysObs) : specPolls T e l = specPollsP T e (pollPairs l) := by
  induction l generalizing e with
  | nil => rfl
  | cons o l ih =>
    cases o with
    | poll t a =>
      simp only [specPolls, pollPairs, specPollsP]
      cases pollClause T e t with
      | none => exact ih _
      | some m => rfl
    | send _ _ _ => simp only [specPolls, pollPairs]; exact ih _
    | recv _ _ => simp only [specPolls, pollPairs]; exact ih _

theorem specPollsP_append (T : Int) (e : Int) (p q : List (Int × PollAns)) :
    specPollsP T e (p ++ q) = match specPollsP T e p with | .ok e1 => specPollsP T e1 q | .error m => .error m := by
  induction p generalizing e with
  | nil => rfl
  | cons x p ih =>
    obtain ⟨t, a⟩ := x
    simp only [List.cons_append, specPollsP]
    cases pollClause T e t with
    | none => exact ih _
    | some m => rfl

/-- the polls the model issued between two states: answers consumed, arguments logged -/
def PTr (a c : Os) (ps : List (Int × PollAns)) : Prop :=
  a.polls = ps.map (·.2) ++ c.polls ∧ pollArgs c = pollArgs a ++ ps.map (·.1)

def Bud (T : Int) (a c : Os) (e e' : Int) : Prop := ∃ ps, PTr a c ps ∧ specPollsP T e ps = .ok e'

theorem Bud.frame {T : Int} {a c : Os} {e : Int} (h1 : c.polls = a.polls) (h2 : pollArgs c = pollArgs a) :
    Bud T a c e e := ⟨[], ⟨by simp [h1], by simp [h2]⟩, rfl⟩

theorem Bud.trans {T : Int} {a b c : Os} {e e1 e2 : Int} (h1 : Bud T a b e e1) (h2 : Bud T b c e1 e2) :
    Bud T a c e e2 := by
  obtain ⟨p, ⟨hp1, hp2⟩, hs1⟩ := h1
  obtain ⟨q, ⟨hq1, hq2⟩, hs2⟩ := h2
  refine ⟨p ++ q, ⟨by rw [hp1, hq1]; simp, by rw [hq2, hp2]; simp⟩, ?_⟩
  rw [specPollsP_append, hs1]
  exact hs2

/-- one `poll` of the model: the scripted answer it consumed and the time that passed -/
theorem pollOnce_tr {t : Int} {os os' : Os} {a' : PollAns} (h : pollOnce t os = some (a', os')) :
    ∃ a, os.polls = a :: os'.polls ∧ os'.now = os.now + adv t a * nsPerMs ∧
      (a' = .timedOut → 0 ≤ t → adv t a = t) ∧ 0 ≤ adv t a ∧ (0 ≤ t → adv t a ≤ t) := by
  unfold pollOnce at h
  cases hp : os.polls with
  | nil => rw [hp] at h; cases h
  | cons a0 rest =>
    rw [hp] at h
    refine ⟨a0, ?_⟩
    cases a0 with
    | ready d =>
      simp only at h
      by_cases hc : t ≥ 0 ∧ (d : Int) > t
      · have hadv : adv t (.ready d) = t := by simp only [adv, if_pos hc]
        rw [if_pos hc] at h; cases h
        rw [hadv]
        exact ⟨rfl, rfl, fun _ _ => rfl, hc.1, fun _ => Int.le_refl _⟩
      · have hadv : adv t (.ready d) = d := by simp only [adv, if_neg hc]
        rw [if_neg hc] at h; cases h
        rw [hadv]
        exact ⟨rfl, rfl, (fun h => by cases h), by omega, fun _ => by omega⟩
    | eintr d =>
      simp only at h
      by_cases hc : t ≥ 0 ∧ (d : Int) > t
      · have hadv : adv t (.eintr d) = t := by simp only [adv, if_pos hc]
        rw [if_pos hc] at h; cases h
        rw [hadv]
        exact ⟨rfl, rfl, fun _ _ => rfl, hc.1, fun _ => Int.le_refl _⟩
      · have hadv : adv t (.eintr d) = d := by simp only [adv, if_neg hc]
        rw [if_neg hc] at h; cases h
        rw [hadv]
        exact ⟨rfl, rfl, (fun h => by cases h), by omega, fun _ => by omega⟩
    | timedOut =>
      simp only at h
      cases h
      by_cases hc : t > 0
      · have hadv : adv t .timedOut = t := by simp only [adv, if_pos hc]
        rw [hadv, if_pos hc]
        exact ⟨rfl, rfl, fun _ _ => rfl, by omega, fun _ => Int.le_refl _⟩
      · have hadv : adv t .timedOut = 0 := by simp only [adv, if_neg hc]
        rw [hadv, if_neg hc]
        exact ⟨rfl, by simp, fun _ _ => by omega, Int.le_refl _, fun h => h⟩
    | fail c =>
      simp only at h
      cases h
      have hadv : adv t (.fail c) = 0 := rfl
      rw [hadv]
      exact ⟨rfl, by simp, (fun h => by cases h), Int.le_refl _, fun h => h⟩

theorem Bud.single {T t e : Int} {os os1 : Os} {a a' : PollAns} (hp : pollOnce t os = some (a', os1))
    (hpolls : os.polls = a :: os1.polls) (hc : pollClause T e t = none) : Bud T os os1 e (e + adv t a) :=
  ⟨[(t, a)], ⟨by simp [hpolls], by simp [pollOnce_pollArgs hp]⟩, by simp [specPollsP, hc]⟩

theorem pollClause_neg {T e t : Int} (hT : T < 0) (ht : t < 0) : pollClause T e t = none := by
  unfold pollClause
  rw [if_neg (by omega), if_neg (by omega), if_neg (by omega)]

theorem pollClause_zero {e : Int} : pollClause 0 e 0 = none := by
  unfold pollClause
  rw [if_neg (by omega), if_neg (by omega), if_neg (by omega)]

theorem pollClause_pos {T e t : Int} (hT : 0 < T) (ht : 0 ≤ t) (hb : t ≤ T - e) : pollClause T e t = none := by
  unfold pollClause
  rw [if_neg (by omega), if_neg (by omega), if_neg (by omega)]

theorem adv_zero (a : PollAns) : adv 0 a = 0 := by
  cases a with
  | ready d => simp only [adv]; split <;> omega
  | eintr d => simp only [adv]; split <;> omega
  | timedOut => simp [adv]
  | fail c => rfl

/-- an unlimited wait of an unlimited operation -/
theorem waitFixed_bud_neg {T t : Int} (hT : T < 0) (ht : t < 0) (fuel : Nat) (os : Os) (e : Int) :
    ∃ e', Bud T os (waitFixed t fuel os).2 e e' := by
  induction fuel generalizing os e with
  | zero => exact ⟨e, Bud.frame rfl rfl⟩
  | succ fuel ih =>
    unfold waitFixed
    cases hp : pollOnce t os with
    | none => exact ⟨e, Bud.frame rfl rfl⟩
    | some r =>
      obtain ⟨a', os1⟩ := r
      obtain ⟨a, hpolls, _⟩ := pollOnce_tr hp
      have h1 := Bud.single (T := T) (e := e) hp hpolls (pollClause_neg hT ht)
      cases a' with
      | ready d => exact ⟨_, h1⟩
      | timedOut => exact ⟨_, h1⟩
      | fail c => exact ⟨_, h1⟩
      | eintr d =>
        obtain ⟨e', h2⟩ := ih os1 (e + adv t a)
        exact ⟨e', h1.trans h2⟩

/-- a zero wait lets no time pass -/
theorem waitFixed_bud_zero {T e : Int} (hc : pollClause T e 0 = none) (fuel : Nat) (os : Os) :
    Bud T os (waitFixed 0 fuel os).2 e e := by
  induction fuel generalizing os with
  | zero => exact Bud.frame rfl rfl
  | succ fuel ih =>
    unfold waitFixed
    cases hp : pollOnce 0 os with
    | none => exact Bud.frame rfl rfl
    | some r =>
      obtain ⟨a', os1⟩ := r
      obtain ⟨a, hpolls, _⟩ := pollOnce_tr hp
      have h1 := Bud.single (T := T) (e := e) hp hpolls hc
      rw [adv_zero, Int.add_zero] at h1
      cases a' with
      | ready d => exact h1
      | timedOut => exact h1
      | fail c => exact h1
      | eintr d => exact h1.trans (ih os1)

theorem remaining_eq {now dl k : Int} (h : dl - now = k * nsPerMs) (hk : 0 ≤ k) :
    (Deadline.limited now dl).remaining = k := by
  show (if toMs (dl - now) < 0 then 0 else toMs (dl - now)) = k
  rw [h, toMs_mul, if_neg (by omega)]

/-- a limited wait, entered `e` ms into an operation with timeout `T` and ending at `start + T`: every
poll argument is the remaining budget, and "timeout" is reported exactly when the budget is used up -/
theorem waitLimited_bud {T : Int} (hT : 0 < T) (hTm : T ≤ intMax) (dl : Int) (fuel : Nat) (os : Os) (e : Int)
    (he : 0 ≤ e) (heT : e ≤ T) (hdl : dl - os.now = (T - e) * nsPerMs) :
    ∃ e', Bud T os (waitLimited dl fuel os).2 e e' ∧ e ≤ e' ∧ e' ≤ T ∧
      (waitLimited dl fuel os).2.now = os.now + (e' - e) * nsPerMs ∧
      ((waitLimited dl fuel os).1 = .ok false → e' = T) := by
  induction fuel generalizing os e with
  | zero => exact ⟨e, Bud.frame rfl rfl, Int.le_refl _, heT, by simp [waitLimited], fun h => by simp [waitLimited] at h⟩
  | succ fuel ih =>
    unfold waitLimited
    rw [remaining_eq hdl (by omega), toMsec_small (by omega) (by omega)]
    cases hp : pollOnce (T - e) os with
    | none => exact ⟨e, Bud.frame rfl rfl, Int.le_refl _, heT, by simp, fun h => by cases h⟩
    | some r =>
      obtain ⟨a', os1⟩ := r
      obtain ⟨a, hpolls, hnow, hto, h0, hle⟩ := pollOnce_tr hp
      have hle' := hle (by omega)
      have h1 := Bud.single (T := T) (e := e) hp hpolls (pollClause_pos (by omega) (by omega) (Int.le_refl _))
      have hclk : os1.now = os.now + (e + adv (T - e) a - e) * nsPerMs := by
        rw [hnow]; congr 2; omega
      cases a' with
      | ready d => exact ⟨_, h1, by omega, by omega, hclk, fun h => by cases h⟩
      | fail c => exact ⟨_, h1, by omega, by omega, hclk, fun h => by cases h⟩
      | timedOut =>
        have := hto rfl (by omega)
        exact ⟨_, h1, by omega, by omega, hclk, fun _ => by omega⟩
      | eintr d =>
        have hdl' : dl - os1.now = (T - (e + adv (T - e) a)) * nsPerMs := by
          rw [hnow]; unfold nsPerMs at *; omega
        obtain ⟨e', h2, g1, g2, g3, g4⟩ := ih os1 (e + adv (T - e) a) (by omega) (by omega) hdl'
        refine ⟨e', h1.trans h2, by omega, g2, ?_, g4⟩
        simp only
        rw [g3, hnow]; unfold nsPerMs; omega

/-- `Wait` with timeout `t`, entered `e` ms into an operation with timeout `T`: `t` is `T` itself for an
unlimited / zero operation and the remaining budget `T - e` for a limited one -/
theorem wait_bud (T t e : Int) (os : Os) (h1 : T < 0 → t < 0) (h2 : T = 0 → t = 0)
    (h3 : 0 < T → 0 ≤ e ∧ t = T - e ∧ 0 ≤ t ∧ T ≤ intMax) :
    ∃ e', Bud T os (wait t os).2 e e' ∧
      (0 < T → e' ≤ T ∧ e ≤ e' ∧ (wait t os).2.now = os.now + (e' - e) * nsPerMs ∧
        ((wait t os).1 = .ok false → e' = T)) ∧
      (T = 0 → e' = e) := by
  have hm0 : toMsec 0 = 0 := by decide
  by_cases hT : T < 0
  · have ht := h1 hT
    unfold wait
    rw [if_pos (by omega)]
    obtain ⟨e', hb⟩ := waitFixed_bud_neg hT (C01.toMsec_neg ht) (os.polls.length + 1) os e
    exact ⟨e', hb, fun h => by omega, fun h => by omega⟩
  · by_cases hT0 : T = 0
    · have ht := h2 hT0
      subst ht; subst hT0
      unfold wait
      rw [if_pos (by omega), hm0]
      exact ⟨e, waitFixed_bud_zero pollClause_zero _ os, fun h => by omega, fun _ => rfl⟩
    · obtain ⟨he, ht, ht0, hTm⟩ := h3 (by omega)
      by_cases htz : t = 0
      · subst htz
        unfold wait
        rw [if_pos (by omega), hm0]
        refine ⟨e, waitFixed_bud_zero (pollClause_pos (by omega) (Int.le_refl _) (by omega)) _ os, ?_, fun h => by omega⟩
        intro _
        refine ⟨by omega, Int.le_refl _, ?_, fun _ => by omega⟩
        rw [waitFixed_zero_now]; simp
      · unfold wait
        rw [if_neg (by omega)]
        obtain ⟨e', hb, g1, g2, g3, g4⟩ := waitLimited_bud (by omega) hTm (os.now + t * nsPerMs) (os.polls.length + 1) os e he
          (by omega) (by rw [ht]; omega)
        exact ⟨e', hb, fun _ => ⟨g2, g1, g3, g4⟩, fun h => by omega⟩

theorem endClause_false {T e : Int} (h1 : 0 < T → e ≤ T) (h2 : T = 0 → e = 0) : endClause T e false = none := by
  unfold endClause
  rw [if_neg (by simp), if_neg (by simp), if_neg (by intro h; have := h1 h.1; omega),
    if_neg (by intro h; exact h.2 (h2 h.1))]

theorem endClause_true {T e : Int} (h0 : ¬ T < 0) (h1 : 0 < T → e = T) (h2 : T = 0 → e = 0) :
    endClause T e true = none := by
  unfold endClause
  rw [if_neg (by intro h; exact h0 h.1), if_neg (by intro h; have := h1 h.1; omega),
    if_neg (by intro h; have := h1 h.1; omega), if_neg (by intro h; exact h.2 (h2 h.1))]

/-- the operations that are one `Wait` followed by at most one non-blocking system call -/
theorem waitop_bud (T : Int) (os os' : Os) (hT : T ≤ intMax) (hk : T < 0 → ∀ a ∈ os.polls, a ≠ .timedOut)
    (hf1 : os'.polls = (wait T os).2.polls) (hf2 : pollArgs os' = pollArgs (wait T os).2) :
    ∃ e', Bud T os os' 0 e' ∧ endClause T e' false = none ∧
      ((wait T os).1 = .ok false → endClause T e' true = none) := by
  obtain ⟨e', hb, g1, g2⟩ := wait_bud T T 0 os (fun h => h) (fun h => h) (fun h => ⟨Int.le_refl _, by omega, by omega, hT⟩)
  refine ⟨e', hb.trans (Bud.frame hf1 hf2), endClause_false (fun h => (g1 h).1) g2, ?_⟩
  intro hw
  refine endClause_true ?_ (fun h => (g1 h).2.2.2 hw) g2
  intro hneg
  exact C01.wait_neg_not_false hneg os (hk hneg) hw

theorem pollArgs_cons_send (os : Os) (len : Nat) (acc : Bytes) (os' : Os) (h : os'.calls = .send len acc :: os.calls) :
    pollArgs os' = pollArgs os := by
  unfold pollArgs; rw [h]; simp

theorem pollArgs_cons_poll (os : Os) (t : Int) (os' : Os) (h : os'.calls = .poll t :: os.calls) :
    pollArgs os' = pollArgs os ++ [t] := by
  unfold pollArgs; rw [h]; simp

theorem pollArgs_cons_recv (os : Os) (size : Nat) (os' : Os) (h : os'.calls = .recv size :: os.calls) :
    pollArgs os' = pollArgs os := by
  unfold pollArgs; rw [h]; simp

theorem recvNow_frame (size : Nat) (os : Os) :
    (recvNow size os).2.polls = os.polls ∧ pollArgs (recvNow size os).2 = pollArgs os := by
  unfold recvNow
  split
  · exact ⟨rfl, rfl⟩
  · simp only
    split <;> (try split) <;> exact ⟨rfl, pollArgs_cons_recv _ _ _ rfl⟩

theorem receive_frame (size : Nat) (T : Int) (os : Os) :
    (receive size T os).2.polls = (wait T os).2.polls ∧ pollArgs (receive size T os).2 = pollArgs (wait T os).2 ∧
    ((receive size T os).1 = .ok none → (wait T os).1 = .ok false) := by
  unfold receive
  cases hw : wait T os with
  | mk rw osw =>
    cases rw with
    | exn e => exact ⟨rfl, rfl, fun h => by cases h⟩
    | ok b =>
      cases b with
      | false => exact ⟨rfl, rfl, fun _ => rfl⟩
      | true =>
        simp only
        have hf := recvNow_frame size osw
        cases hr : recvNow size osw with
        | mk rr osr =>
          rw [hr] at hf
          cases rr with
          | ok bs => exact ⟨hf.1, hf.2, fun h => by cases h⟩
          | exn e => exact ⟨hf.1, hf.2, fun h => by cases h⟩

theorem receiveFrom_frame (size : Nat) (T : Int) (os : Os) :
    (receiveFrom size T os).2.polls = (wait T os).2.polls ∧
    pollArgs (receiveFrom size T os).2 = pollArgs (wait T os).2 ∧
    ((receiveFrom size T os).1 = .ok none → (wait T os).1 = .ok false) := by
  unfold receiveFrom
  cases hw : wait T os with
  | mk rw osw =>
    cases rw with
    | exn e => exact ⟨rfl, rfl, fun h => by cases h⟩
    | ok b =>
      cases b with
      | false => exact ⟨rfl, rfl, fun _ => rfl⟩
      | true =>
        simp only
        cases hr : osw.recvs with
        | nil => exact ⟨rfl, rfl, fun h => by cases h⟩
        | cons a rest =>
          cases a with
          | got x => exact ⟨rfl, pollArgs_cons_recv _ _ _ rfl, fun h => by cases h⟩
          | eof => exact ⟨rfl, pollArgs_cons_recv _ _ _ rfl, fun h => by cases h⟩
          | fail c => exact ⟨rfl, pollArgs_cons_recv _ _ _ rfl, fun h => by cases h⟩

theorem acceptT_frame (T : Int) (os : Os) :
    (acceptT T os).2.polls = (wait T os).2.polls ∧ pollArgs (acceptT T os).2 = pollArgs (wait T os).2 ∧
    ((acceptT T os).1 = .ok none → (wait T os).1 = .ok false) := by
  unfold acceptT
  cases hw : wait T os with
  | mk rw osw =>
    cases rw with
    | exn e => exact ⟨rfl, rfl, fun h => by cases h⟩
    | ok b =>
      cases b with
      | false => exact ⟨rfl, rfl, fun _ => rfl⟩
      | true =>
        simp only
        cases hr : osw.recvs with
        | nil => exact ⟨rfl, rfl, fun h => by cases h⟩
        | cons a rest =>
          cases a with
          | got x => exact ⟨rfl, pollArgs_cons_recv _ _ _ rfl, fun h => by cases h⟩
          | eof => exact ⟨rfl, pollArgs_cons_recv _ _ _ rfl, fun h => by cases h⟩
          | fail c => exact ⟨rfl, pollArgs_cons_recv _ _ _ rfl, fun h => by cases h⟩

theorem sendTo_frame (data : Bytes) (T : Int) (os : Os) :
    (sendTo data T os).2.polls = (wait T os).2.polls ∧ pollArgs (sendTo data T os).2 = pollArgs (wait T os).2 := by
  unfold sendTo
  cases hw : wait T os with
  | mk rw osw =>
    cases rw with
    | exn e => exact ⟨rfl, rfl⟩
    | ok b =>
      cases b with
      | false => exact ⟨rfl, rfl⟩
      | true =>
        simp only
        cases hr : osw.sends with
        | nil => exact ⟨rfl, rfl⟩
        | cons a rest =>
          cases a with
          | accept k => simp only; split <;> exact ⟨rfl, pollArgs_cons_send _ _ _ _ rfl⟩
          | fail c => exact ⟨rfl, pollArgs_cons_send _ _ _ _ rfl⟩

/-! the TCP send loops -/

theorem sendNow_bud {T : Int} (data : Bytes) (os : Os) (e : Int) : Bud T os (sendNow data os).2 e e := by
  obtain ⟨h1, _, _, h4, _⟩ := sendNow_facts (data := data) (os := os) rfl
  exact Bud.frame h1 h4

theorem sendAllLoop_bud {T : Int} (hT : T < 0) (fuel : Nat) (rem : Bytes) (sent : Nat) (os : Os) (e : Int) :
    ∃ e', Bud T os (sendAllLoop fuel rem sent os).2 e e' := by
  induction fuel generalizing rem sent os e with
  | zero => exact ⟨e, Bud.frame rfl rfl⟩
  | succ fuel ih =>
    unfold sendAllLoop
    obtain ⟨e1, hb, _⟩ := wait_bud T (-1) e os (fun _ => by omega) (fun h => by omega) (fun h => by omega)
    cases hw : wait (-1) os with
    | mk rw osw =>
      rw [hw] at hb
      cases rw with
      | exn x => exact ⟨e1, hb⟩
      | ok b =>
        simp only
        have hs := sendNow_bud (T := T) rem osw e1
        cases hsn : sendNow rem osw with
        | mk rs oss =>
          rw [hsn] at hs
          cases rs with
          | exn x => exact ⟨e1, hb.trans hs⟩
          | ok k =>
            simp only
            split
            · exact ⟨e1, hb.trans hs⟩
            · obtain ⟨e', h3⟩ := ih (rem.drop k) (sent + k) oss e1
              exact ⟨e', (hb.trans hs).trans h3⟩

theorem sendTry_bud (data : Bytes) (os : Os) : Bud 0 os (sendTry data os).2 0 0 := by
  unfold sendTry
  obtain ⟨e1, hb, _, h0⟩ := wait_bud 0 0 0 os (fun h => by omega) (fun _ => rfl) (fun h => by omega)
  have := h0 rfl
  subst this
  cases hw : wait 0 os with
  | mk rw osw =>
    rw [hw] at hb
    cases rw with
    | exn x => exact hb
    | ok b =>
      cases b with
      | false => exact hb
      | true => exact hb.trans (sendNow_bud data osw 0)

theorem sendSomeLoop_bud {T : Int} (hT : 0 < T) (hTm : T ≤ intMax) (deadline : Int) (fuel : Nat) (rem : Bytes)
    (sent : Nat) (os : Os) (e : Int) (he : 0 ≤ e) (heT : e ≤ T) (hdl : deadline - os.now = (T - e) * nsPerMs) :
    ∃ e', Bud T os (sendSomeLoop deadline fuel rem sent os.now os).2 e e' ∧ e' ≤ T := by
  induction fuel generalizing rem sent os e with
  | zero => exact ⟨e, Bud.frame rfl rfl, heT⟩
  | succ fuel ih =>
    unfold sendSomeLoop
    rw [remaining_eq hdl (by omega)]
    obtain ⟨e1, hb, g, _⟩ := wait_bud T (T - e) e os (fun h => by omega) (fun h => by omega)
      (fun _ => ⟨he, rfl, by omega, hTm⟩)
    obtain ⟨g1, g2, g3, _⟩ := g hT
    cases hw : wait (T - e) os with
    | mk rw osw =>
      rw [hw] at hb g3
      simp only at g3
      cases rw with
      | exn x => exact ⟨e1, hb, g1⟩
      | ok b =>
        cases b with
        | false => exact ⟨e1, hb, g1⟩
        | true =>
          simp only
          have hs := sendNow_bud (T := T) rem osw e1
          cases hsn : sendNow rem osw with
          | mk rs oss =>
            rw [hsn] at hs
            have hnow : oss.now = osw.now := (sendNow_facts hsn).2.2.1
            cases rs with
            | exn x => exact ⟨e1, hb.trans hs, g1⟩
            | ok k =>
              simp only
              split
              · exact ⟨e1, hb.trans hs, g1⟩
              · have hdl' : deadline - oss.now = (T - e1) * nsPerMs := by
                  rw [hnow, g3]; unfold nsPerMs at *; omega
                obtain ⟨e', h3, g4⟩ := ih (rem.drop k) (sent + k) oss e1 (by omega) g1 hdl'
                rw [hnow] at h3
                exact ⟨e', (hb.trans hs).trans h3, g4⟩

/-- `Send` in every timeout mode: the polls of all its waits are within the budget -/
theorem send_bud (data : Bytes) (T : Int) (os : Os) (hT : T ≤ intMax) :
    ∃ e', Bud T os (send data T os).2 0 e' ∧ endClause T e' false = none := by
  unfold send
  split
  · rename_i hneg
    obtain ⟨e', hb⟩ := sendAllLoop_bud hneg (os.sends.length + 1) data 0 os 0
    exact ⟨e', hb, endClause_false (fun h => by omega) (fun h => by omega)⟩
  · split
    · rename_i h0
      subst h0
      exact ⟨0, sendTry_bud data os, endClause_false (fun h => by omega) (fun _ => rfl)⟩
    · rename_i hn h0
      have hpos : 0 < T := by omega
      obtain ⟨e', hb, hle⟩ := sendSomeLoop_bud hpos hT (os.now + T * nsPerMs) (os.sends.length + 1) data 0 os 0
        (Int.le_refl _) (by omega) (by rw [Int.sub_zero]; omega)
      exact ⟨e', hb, endClause_false (fun _ => hle) (fun h => by omega)⟩

/-! from the model's `Os` to its `-> sys` lines -/

theorem Run.ptr {f : RecvAns → Nat → C01.RecvObs} {a c : Os} {l : List SysObs} (h : Run f a l c) :
    PTr a c (pollPairs l) := by
  induction h with
  | nil os => exact ⟨by simp [pollPairs], by simp [pollPairs]⟩
  | cons s _ ih =>
    obtain ⟨i1, i2⟩ := ih
    cases s with
    | poll h1 h2 h3 h4 h5 =>
      refine ⟨?_, ?_⟩
      · rw [h1, ← h2, i1]; simp [pollPairs]
      · rw [i2, pollArgs_cons_poll _ _ _ h5]; simp [pollPairs]
    | send h1 h2 h3 h4 h5 _ =>
      exact ⟨by rw [← h3, i1]; simp [pollPairs], by rw [i2, pollArgs_cons_send _ _ _ _ h5]; simp [pollPairs]⟩
    | recv h1 h2 h3 h4 h5 =>
      exact ⟨by rw [← h3, i1]; simp [pollPairs], by rw [i2, pollArgs_cons_recv _ _ _ h5]; simp [pollPairs]⟩

theorem pairs_ext {α β : Type} : ∀ (p q : List (α × β)), p.map (·.1) = q.map (·.1) → p.map (·.2) = q.map (·.2) → p = q
  | [], [], _, _ => rfl
  | [], _ :: _, h, _ => by simp at h
  | _ :: _, [], h, _ => by simp at h
  | (a, b) :: p, (a', b') :: q, h1, h2 => by
    simp only [List.map_cons, List.cons.injEq] at h1 h2
    obtain ⟨rfl, h1⟩ := h1
    obtain ⟨rfl, h2⟩ := h2
    rw [pairs_ext p q h1 h2]

theorem PTr.unique {a c : Os} {p q : List (Int × PollAns)} (h1 : PTr a c p) (h2 : PTr a c q) : p = q := by
  apply pairs_ext
  · exact List.append_cancel_left (h1.2.symm.trans h2.2)
  · exact List.append_cancel_right (h1.1.symm.trans h2.1)

/-- the timeout clauses hold for the `-> sys` lines of a model operation whose polls are within the budget -/
theorem tmo_ok {f : RecvAns → Nat → C01.RecvObs} {T : Int} {a c : Os} {l : List SysObs} {e' : Int} {b : Bool}
    (hb : Bud T a c 0 e') (hr : Run f a l c) (hf : endClause T e' false = none)
    (ht : b = true → endClause T e' true = none) : specTimeouts T l b = none := by
  obtain ⟨ps, hp, hs⟩ := hb
  have := hp.unique (Run.ptr hr)
  subst this
  unfold specTimeouts
  rw [specPolls_pairs, hs]
  cases b with
  | false => exact hf
  | true => exact ht rfl

theorem tmoClause_ok {md : Mode} {sys : List SysObs} {T : Int} {b : Bool} (h : specTimeouts T sys b = none) :
    tmoClause md sys T b = none := by
  unfold tmoClause
  split
  · exact h
  · rfl

theorem sigClause_ok {md : Mode} {sys : List SysObs} {what : String} {x : Thrown} {logicOk : Bool}
    (h : hasPollFail sys = true ∨ hasIoFail sys = true ∨ (logicOk = true ∧ x = .logic)) :
    sigClause md sys what x logicOk = none := by
  unfold sigClause
  rcases h with h | h | h <;> simp [h]

/-- the domain: the timeout is in the documented range `T < 2^31` ms (beyond it `ToMsec` clamps the poll
argument and a wait reports "timed out" before `T`), and the kernel does not answer an unlimited `poll`
with "timed out" (a statement about the kernel, as in `Spec/C01.lean`) -/
def tOk (T : Int) (polls : List PollAns) : Bool :=
  decide (T ≤ intMax ∧ (T < 0 → ∀ a ∈ polls, a ≠ PollAns.timedOut))

def opOk : C01.Op → Bool
  | .send _ T _ _ => decide (T ≤ intMax)
  | .recv _ T polls _ => tOk T polls
  | .sendto _ T polls _ => tOk T polls
  | .recvfrom _ T polls _ => tOk T polls
  | .listen T polls _ => tOk T polls
  | _ => true

def histOk (history : List C01.Op) : Bool := history.all opOk


theorem specStepM_of {md : Mode} {o : Obs} (hab : ∀ msg, o.op ≠ .abort msg) (hns : nosigBad o.sys = false)
    (hcl : opClause md o.sys o.op = none) : specStepM md () o = .ok () := by
  unfold specStepM
  split
  · rename_i msg h; exact absurd h (hab msg)
  · rw [hns, hcl]; rfl

theorem tOk_spec {T : Int} {polls : List PollAns} (h : tOk T polls = true) :
    T ≤ intMax ∧ (T < 0 → ∀ a ∈ polls, a ≠ PollAns.timedOut) := of_decide_eq_true h

/-- one operation of a history: every clause of the predicate (either mode) accepts what the model does -/
theorem step_ok (md : Mode) (m : C01.Sys) (op : C01.Op) (hop : opOk op = true) {m' : C01.Sys} {o : Obs}
    (hstep : C01.sysStep m op = some (m', o)) : specStepM md () o = .ok () := by
  cases op with
  | send data T polls sends =>
    simp only [C01.sysStep] at hstep
    have hT : T ≤ intMax := of_decide_eq_true hop
    obtain ⟨l, hrun, hex⟩ := C01.send_run tcpRecvObs data T { polls := polls, sends := sends }
    have hsys := hrun.sysOf rfl
    have hnosig := hrun.nosig
    obtain ⟨e', hb, hend⟩ := send_bud data T { polls := polls, sends := sends } hT
    have htm : specTimeouts T l false = none := tmo_ok hb hrun hend (fun h => by cases h)
    rw [hsys] at hstep
    cases hp : (send data T { polls := polls, sends := sends }).1 with
    | ok n =>
      rw [hp] at hstep
      simp only [Option.some.injEq, Prod.mk.injEq] at hstep
      obtain ⟨_, rfl⟩ := hstep
      exact specStepM_of (by intro msg h; cases h) hnosig (tmoClause_ok htm)
    | exn e =>
      rw [hp] at hstep
      have hc := hex e hp
      cases e with
      | exhausted => simp at hstep
      | system c =>
        simp only [Option.some.injEq, Prod.mk.injEq] at hstep
        obtain ⟨_, rfl⟩ := hstep
        refine specStepM_of (by intro msg h; cases h) hnosig (sigClause_ok ?_)
        rcases hc.system_fail with h | h
        · exact Or.inl h
        · exact Or.inr (Or.inl h)
      | logic =>
        simp only [Option.some.injEq, Prod.mk.injEq] at hstep
        obtain ⟨_, rfl⟩ := hstep
        exact specStepM_of (by intro msg h; cases h) hnosig (sigClause_ok (Or.inr (Or.inr ⟨rfl, rfl⟩)))
      | closed => exact hc.not_closed.elim
  | recv size T polls ans =>
    simp only [C01.sysStep] at hstep
    obtain ⟨hT, hk⟩ := tOk_spec hop
    obtain ⟨l, hrun, hexn, _, _⟩ :=
      C01.receive_trace size T { polls := polls, recvs := [C01.tcpAns m.inbox m.peerClosed ans] } _ rfl
    have hsys := hrun.sysOf rfl
    have hnosig := hrun.nosig
    have hfr := receive_frame size T { polls := polls, recvs := [C01.tcpAns m.inbox m.peerClosed ans] }
    obtain ⟨e', hb, hf, ht⟩ := waitop_bud T { polls := polls, recvs := [C01.tcpAns m.inbox m.peerClosed ans] } _ hT hk
      hfr.1 hfr.2.1
    rw [hsys] at hstep
    cases hp : (receive size T { polls := polls, recvs := [C01.tcpAns m.inbox m.peerClosed ans] }).1 with
    | ok v =>
      rw [hp] at hstep
      cases v with
      | none =>
        simp only [Option.some.injEq, Prod.mk.injEq] at hstep
        obtain ⟨_, rfl⟩ := hstep
        exact specStepM_of (by intro msg h; cases h) hnosig
          (tmoClause_ok (tmo_ok hb hrun hf (fun _ => ht (hfr.2.2 hp))))
      | some bs =>
        simp only [Option.some.injEq, Prod.mk.injEq] at hstep
        obtain ⟨_, rfl⟩ := hstep
        exact specStepM_of (by intro msg h; cases h) hnosig
          (tmoClause_ok (tmo_ok hb hrun hf (fun h => by cases h)))
    | exn e =>
      rw [hp] at hstep
      obtain ⟨hc, _⟩ := hexn e hp
      cases e with
      | exhausted => simp at hstep
      | system c =>
        simp only [Option.some.injEq, Prod.mk.injEq] at hstep
        obtain ⟨_, rfl⟩ := hstep
        refine specStepM_of (by intro msg h; cases h) hnosig (sigClause_ok ?_)
        rcases hc.system_fail with h | h
        · exact Or.inl h
        · exact Or.inr (Or.inl h)
      | logic => exact hc.not_logic.elim
      | closed =>
        simp only [Option.some.injEq, Prod.mk.injEq] at hstep
        obtain ⟨_, rfl⟩ := hstep
        exact specStepM_of (by intro msg h; cases h) hnosig rfl
  | sendto data T polls sends =>
    simp only [C01.sysStep] at hstep
    obtain ⟨hT, hk⟩ := tOk_spec hop
    obtain ⟨l, hrun, hexn, hok⟩ := C01.sendTo_trace data T { polls := polls, sends := sends } rfl
    have hsys := hrun.sysOf rfl
    have hnosig := hrun.nosig
    have hfr := sendTo_frame data T { polls := polls, sends := sends }
    obtain ⟨e', hb, hf, ht⟩ := waitop_bud T { polls := polls, sends := sends } _ hT hk hfr.1 hfr.2
    rw [hsys] at hstep
    cases hp : (sendTo data T { polls := polls, sends := sends }).1 with
    | ok n =>
      rw [hp] at hstep
      simp only [Option.some.injEq, Prod.mk.injEq] at hstep
      obtain ⟨_, rfl⟩ := hstep
      refine specStepM_of (by intro msg h; cases h) hnosig (tmoClause_ok (tmo_ok hb hrun hf ?_))
      intro hd
      have hd' := of_decide_eq_true hd
      rcases hok n hp with ⟨_, _, _, hwait⟩ | ⟨_, hany, _, _⟩
      · exact ht hwait
      · have := hd'.2.2
        simp [hany] at this
    | exn e =>
      rw [hp] at hstep
      have hc := hexn e hp
      cases e with
      | exhausted => simp at hstep
      | system c =>
        simp only [Option.some.injEq, Prod.mk.injEq] at hstep
        obtain ⟨_, rfl⟩ := hstep
        refine specStepM_of (by intro msg h; cases h) hnosig (sigClause_ok ?_)
        rcases hc.system_fail with h | h
        · exact Or.inl h
        · exact Or.inr (Or.inl h)
      | logic =>
        simp only [Option.some.injEq, Prod.mk.injEq] at hstep
        obtain ⟨_, rfl⟩ := hstep
        exact specStepM_of (by intro msg h; cases h) hnosig (sigClause_ok (Or.inr (Or.inr ⟨rfl, rfl⟩)))
      | closed => exact hc.not_closed.elim
  | recvfrom size T polls ans =>
    simp only [C01.sysStep] at hstep
    obtain ⟨hT, hk⟩ := tOk_spec hop
    obtain ⟨l, hrun, hexn, _, _⟩ :=
      C01.receiveFrom_trace size T { polls := polls, recvs := [C01.udpAns m.dgrams ans] } _ rfl
    have hsys := hrun.sysOf rfl
    have hnosig := hrun.nosig
    have hfr := receiveFrom_frame size T { polls := polls, recvs := [C01.udpAns m.dgrams ans] }
    obtain ⟨e', hb, hf, ht⟩ := waitop_bud T { polls := polls, recvs := [C01.udpAns m.dgrams ans] } _ hT hk hfr.1 hfr.2.1
    rw [hsys] at hstep
    cases hp : (receiveFrom size T { polls := polls, recvs := [C01.udpAns m.dgrams ans] }).1 with
    | ok v =>
      rw [hp] at hstep
      cases v with
      | none =>
        simp only [Option.some.injEq, Prod.mk.injEq] at hstep
        obtain ⟨_, rfl⟩ := hstep
        exact specStepM_of (by intro msg h; cases h) hnosig
          (tmoClause_ok (tmo_ok hb hrun hf (fun _ => ht (hfr.2.2 hp))))
      | some bs =>
        simp only [Option.some.injEq, Prod.mk.injEq] at hstep
        obtain ⟨_, rfl⟩ := hstep
        exact specStepM_of (by intro msg h; cases h) hnosig
          (tmoClause_ok (tmo_ok hb hrun hf (fun h => by cases h)))
    | exn e =>
      rw [hp] at hstep
      obtain ⟨hc, _⟩ := hexn e hp
      cases e with
      | exhausted => simp at hstep
      | system c =>
        simp only [Option.some.injEq, Prod.mk.injEq] at hstep
        obtain ⟨_, rfl⟩ := hstep
        refine specStepM_of (by intro msg h; cases h) hnosig (sigClause_ok ?_)
        rcases hc.system_fail with h | h
        · exact Or.inl h
        · exact Or.inr (Or.inl h)
      | logic => exact hc.not_logic.elim
      | closed => exact hc.not_closed.elim
  | listen T polls err =>
    simp only [C01.sysStep] at hstep
    obtain ⟨hT, hk⟩ := tOk_spec hop
    obtain ⟨l, hrun, hexn⟩ := C01.acceptT_trace T { polls := polls, recvs := [C01.accAns err] }
    have hsys := hrun.sysOf rfl
    have hnosig := hrun.nosig
    have hfr := acceptT_frame T { polls := polls, recvs := [C01.accAns err] }
    obtain ⟨e', hb, hf, ht⟩ := waitop_bud T { polls := polls, recvs := [C01.accAns err] } _ hT hk hfr.1 hfr.2.1
    rw [hsys] at hstep
    cases hp : (acceptT T { polls := polls, recvs := [C01.accAns err] }).1 with
    | ok v =>
      rw [hp] at hstep
      cases v with
      | none =>
        simp only [Option.some.injEq, Prod.mk.injEq] at hstep
        obtain ⟨_, rfl⟩ := hstep
        exact specStepM_of (by intro msg h; cases h) hnosig
          (tmoClause_ok (tmo_ok hb hrun hf (fun _ => ht (hfr.2.2 hp))))
      | some u =>
        simp only [Option.some.injEq, Prod.mk.injEq] at hstep
        obtain ⟨_, rfl⟩ := hstep
        exact specStepM_of (by intro msg h; cases h) hnosig
          (tmoClause_ok (tmo_ok hb hrun hf (fun h => by cases h)))
    | exn e =>
      rw [hp] at hstep
      have hc := hexn e hp
      cases e with
      | exhausted => simp at hstep
      | system c =>
        simp only [Option.some.injEq, Prod.mk.injEq] at hstep
        obtain ⟨_, rfl⟩ := hstep
        refine specStepM_of (by intro msg h; cases h) hnosig (sigClause_ok ?_)
        rcases hc.system_fail with h | h
        · exact Or.inl h
        · exact Or.inr (Or.inl h)
      | logic => exact hc.not_logic.elim
      | closed => exact hc.not_closed.elim
  | psend data =>
    simp only [C01.sysStep, Option.some.injEq, Prod.mk.injEq] at hstep
    obtain ⟨_, rfl⟩ := hstep; rfl
  | pclose =>
    simp only [C01.sysStep, Option.some.injEq, Prod.mk.injEq] at hstep
    obtain ⟨_, rfl⟩ := hstep; rfl
  | pshutwr =>
    simp only [C01.sysStep, Option.some.injEq, Prod.mk.injEq] at hstep
    obtain ⟨_, rfl⟩ := hstep; rfl
  | prst =>
    simp only [C01.sysStep, Option.some.injEq, Prod.mk.injEq] at hstep
    obtain ⟨_, rfl⟩ := hstep; rfl
  | sync =>
    simp only [C01.sysStep, Option.some.injEq, Prod.mk.injEq] at hstep
    obtain ⟨_, rfl⟩ := hstep; rfl
  | pdgram data =>
    simp only [C01.sysStep, Option.some.injEq, Prod.mk.injEq] at hstep
    obtain ⟨_, rfl⟩ := hstep; rfl
  | setup =>
    simp only [C01.sysStep, Option.some.injEq, Prod.mk.injEq] at hstep
    obtain ⟨_, rfl⟩ := hstep; rfl
  | precv delivered =>
    simp only [C01.sysStep] at hstep
    split at hstep
    · simp only [Option.some.injEq, Prod.mk.injEq] at hstep
      obtain ⟨_, rfl⟩ := hstep; rfl
    · simp only [Option.some.injEq, Prod.mk.injEq] at hstep
      obtain ⟨_, rfl⟩ := hstep; rfl

/-- **The timeout (and signal) clauses that `./check C07` / `./check C16` evaluate on the implementation's
blocking socket operations are a theorem of the model.**  For every mode flag, every history of `Send` /
`Receive` / `SendTo` / `ReceiveFrom` / `Listen` calls with any payloads, buffer sizes and timeouts, every
scripted answer of the operating system to every `poll` and `send` (readiness after any delay, never,
signals at any time and in any number, failures, short writes of any pattern) and every state `m` of the
environment, the observations of the model are accepted: with `T < 0` only unlimited polls and never
'nothing'; with `T = 0` only zero polls and no virtual time passes; with `T > 0` every poll argument lies in
`[0, T - elapsed]` (in fact it IS the remaining budget), the operation blocks no longer than `T` in total
however many waits, partial sends or interruptions it needs, and reports 'nothing' only at `start + T`; a
signal alone never makes a call fail.  `histOk` restricts the domain, not the clauses (`opOk`). -/
theorem model_satisfies_specM (md : Mode) (history : List C01.Op) (hok : histOk history = true) (m : C01.Sys) :
    ∃ s, specRunM md () (C01.modelTrace m history) = .ok s := by
  induction history generalizing m with
  | nil => exact ⟨(), rfl⟩
  | cons op ops ih =>
    simp only [histOk, List.all_cons, Bool.and_eq_true] at hok
    simp only [C01.modelTrace]
    cases hs : C01.sysStep m op with
    | none => exact ⟨(), rfl⟩
    | some r =>
      obtain ⟨m', o⟩ := r
      have h1 := step_ok md m op hok.1 hs
      obtain ⟨s, hs'⟩ := ih hok.2 m'
      exact ⟨s, by simp only [specRunM, h1]; exact hs'⟩

/-- the predicate of `./check C07` on the socket operations accepts every trace of the model -/
theorem model_satisfies_spec (history : List C01.Op) (hok : histOk history = true) :
    ∃ s, specRun () (C01.modelTrace {} history) = .ok s :=
  model_satisfies_specM c07 history hok {}

/-! ### non-vacuity: a history the hypothesis admits, and traces the predicate rejects -/

def exampleHistory : List C01.Op := C01.exampleHistory ++ [
  .recv 4 7 [.eintr 2, .eintr 3, .timedOut] (.take 1),                 -- limited: polls 7, 5, 2; nothing at 7 ms
  .recv 4 7 [.eintr 2, .ready 9] (.take 1),                            -- the event comes after the deadline
  .send [1, 2, 3] 9 [.ready 2, .eintr 3, .ready 1, .ready 7] [.accept 1, .accept 1],   -- SendSome: 9, 7, 4, 3
  .listen (-1) [.eintr 5, .eintr 5, .ready 0] none,
  .recvfrom 2 2147483647 [.eintr 2147483646, .timedOut] (.take 0)]

example : histOk exampleHistory = true := by decide
example : (specRun () (C01.modelTrace {} exampleHistory)).toBool = true := by decide
example : ((C01.modelTrace {} exampleHistory).map (fun o => pollPairs o.sys)).drop 28 =
    [[(7, .eintr 2), (5, .eintr 3), (2, .timedOut)], [(7, .eintr 2), (5, .ready 9)],
     [(9, .ready 2), (7, .eintr 3), (4, .ready 1), (3, .ready 7)],
     [(-1, .eintr 5), (-1, .eintr 5), (-1, .ready 0)],
     [(2147483647, .eintr 2147483646), (1, .timedOut)]] := by decide

/-- a retry with the ORIGINAL timeout (the seeded change C16_r4_agentH) is rejected -/
example : (match specRun () [{ op := .recv 4 1 .none, sys := [.poll 1 (.eintr 1), .poll 1 .timedOut] }] with
    | .error m => m | .ok _ => "") = "operation with timeout 1 issued poll(1) after 1 ms: over budget" := by decide
/-- 'nothing' before the timeout is rejected -/
example : (specRun () [{ op := .recv 4 5 .none, sys := [.poll 3 .timedOut] }]).toBool = false := by decide
/-- an unlimited operation that polls with a finite timeout, or reports 'nothing', is rejected -/
example : (specRun () [{ op := .listen (-1) (.count 1), sys := [.poll 0 (.ready 0)] }]).toBool = false := by decide
example : (specRun () [{ op := .recvfrom 4 (-1) .none, sys := [.poll (-1) .timedOut] }]).toBool = false := by decide
/-- a zero-timeout operation that blocks is rejected -/
example : (specRun () [{ op := .send [1] 0 (.count 0), sys := [.poll 1 .timedOut] }]).toBool = false := by decide
/-- the hypothesis is needed: beyond the documented domain `T < 2^31` ms the poll argument is clamped and
the wait reports "timed out" before `T` -/
example : histOk [.recv 1 2147483648 [.timedOut] (.take 0)] = false := by decide
example : (specRun () (C01.modelTrace {} [.recv 1 2147483648 [.timedOut] (.take 0)])).toBool = false := by decide

end SockModel.Spec.C07

/-
Prelude of the generated effectful code (Generated/Loops.lean, DESIGN.md §0.7 stage 2): a state-and-exception
monad over an abstract world state `ω`, and the interface of the calls that leave the library.
Hand-written, fixed; nothing here depends on /repo.
-/
namespace SockModel.Gen

/-- the exception classes the translated code throws -/
inductive ExnClass where
  | system_error
  | runtime_error
  | logic_error
  deriving Repr, DecidableEq

/-- a thrown exception: its class and (for `std::system_error`) the error code -/
structure Thrown where
  cls : ExnClass
  code : Int
  deriving Repr, DecidableEq

/-- outcome of a computation: a value, a C++ exception, or `halted` (the fuel of a loop ran out, or the
world stopped answering: not a behaviour of the C++ code) -/
inductive Res (α : Type) where
  | ok (v : α)
  | thrown (e : Thrown)
  | halted
  deriving Repr, DecidableEq

abbrev M (ω α : Type) := ω → Res α × ω

@[inline] def M.pure {ω α : Type} (v : α) : M ω α := fun w => (.ok v, w)
@[inline] def M.throw {ω α : Type} (e : Thrown) : M ω α := fun w => (.thrown e, w)
@[inline] def M.halt {ω α : Type} : M ω α := fun w => (.halted, w)
@[inline] def M.bind {ω α β : Type} (m : M ω α) (f : α → M ω β) : M ω β := fun w =>
  match m w with
  | (.ok v, w') => f v w'
  | (.thrown e, w') => (.thrown e, w')
  | (.halted, w') => (.halted, w')

/-- `catch(H const &)` catches an exception of class `c`: `std::system_error` is a `std::runtime_error` -/
def ExnClass.isA (c h : ExnClass) : Bool :=
  c == h || (c == .system_error && h == .runtime_error)

/-- `try body catch(H const &e) handler` -/
@[inline] def M.tryCatch {ω α : Type} (h : ExnClass) (body : M ω α) (handler : Thrown → M ω α) : M ω α := fun w =>
  match body w with
  | (.thrown e, w') => if e.cls.isA h then handler e w' else (.thrown e, w')
  | r => r

/-- the iteration budget a function starts its loops with: its own `fuel` (a marker, so that proofs can
generalise the loop counter without touching the `fuel` handed on to callees) -/
def loopFuel (fuel : Nat) : Nat := fuel

/-- every call that leaves the library -/
structure World (ω : Type) where
  /-- `DoPoll(pfds, count, timeoutMs)` = `::poll`: its `int` result -/
  doPoll : Int → M ω Int
  /-- `Interrupted()`: `errno == EINTR` after the last call -/
  interrupted : M ω Bool
  /-- `Clock::now()` (steady clock, ns) -/
  clockNow : M ω Int
  /-- `::send(fd, data + off, len, sendFlags)`: its `ssize_t` result -/
  send : Int → Int → M ω Int
  /-- `::recv(fd, buf, size, 0)`: its `ssize_t` result (the bytes written to the buffer are not modelled) -/
  recv : Int → M ω Int
  /-- `SocketError()`: the error code of the last failed call -/
  socketError : M ω Int

/-- the abstract ToDo deque and task interface `Driver::DriverImpl::StepTodos` works on (plus the clock of `World`) -/
structure TodoWorld (ω : Type) extends World ω where
  /-- `todos.front()->when` (ns); the deque must not be empty -/
  frontWhen : M ω Int
  /-- `todos.pop_front()` after `auto task = std::move(front)`: the task leaves the list and becomes the current one -/
  popFront : M ω Unit
  /-- `task->what()`: the user's task body runs (it may re-enter the driver and change the list and the clock) -/
  runTask : M ω Unit
  /-- `todos.empty()` -/
  todosEmpty : M ω Bool

/-- the abstract send queue, promise, buffer and socket interface of `SocketAsyncImpl::DriverSend` / `DriverSendTo`
(`auto &&[promise, buffer(, addr)] = q.front()` names the fields of the front element) -/
structure QueueWorld (ω : Type) where
  /-- `q.size()` -/
  qSize : M ω Int
  /-- `q.empty()` -/
  qEmpty : M ω Bool
  /-- `q.pop()`: the front element is destroyed (its buffer goes back to the pool) -/
  qPop : M ω Unit
  /-- `buffer->size()` of the front element -/
  bufferSize : M ω Int
  /-- `buffer->erase(0, n)` of the front element -/
  bufferErase : Int → M ω Unit
  /-- `promise.set_value()` of the front element -/
  promiseSetValue : M ω Unit
  /-- `promise.set_exception(std::make_exception_ptr(e))` of the front element -/
  promiseSetException : M ω Unit
  /-- `buff->sock->SendSome(buffer->data(), len)`: the socket's non-blocking send of the front buffer; may throw -/
  sockSendSome : Int → M ω Int
  /-- `buff->sock->SendTo(buffer->data(), len, addr->ForUdp())`; may throw -/
  sockSendTo : Int → M ω Int
  /-- `buff->sock->DriverPending()` (TLS handshake hook) -/
  sockDriverPending : M ω Unit
  /-- `q.emplace(std::move(promise), std::forward<Args>(args)...)`: the new element goes to the back -/
  qEmplace : M ω Unit
  /-- `std::lock_guard<std::mutex> lock(sendQMtx)` -/
  lock : M ω Unit
  /-- the guard's destructor on a normal exit of the function -/
  unlock : M ω Unit
  /-- `driver.lock()`: is the driver still alive -/
  driverLock : M ω Bool
  /-- `ptr->AsyncWantSend(buff->sock->fd)` -/
  driverAsyncWantSend : M ω Unit

/-- what the TLS glue `SocketTlsImpl` works on: its own fields, libssl, the socket layer below (plus the clock and
`SocketError()` of `World`) -/
structure TlsWorld (ω : Type) extends World ω where
  get_lastError : M ω Int
  set_lastError : Int → M ω Unit
  get_remainingTime : M ω Int
  set_remainingTime : Int → M ω Unit
  get_isReadable : M ω Bool
  set_isReadable : Bool → M ω Unit
  get_isWritable : M ω Bool
  set_isWritable : Bool → M ω Unit
  get_driverSendSuppressed : M ω Bool
  set_driverSendSuppressed : Bool → M ω Unit
  /-- `pendingSend = std::string_view(data + off, len)` (`{}` = 0 0) -/
  set_pendingSend : Int → Int → M ω Unit
  /-- `if(pendingError)` -/
  pendingErrorSet : M ω Bool
  /-- `std::rethrow_exception(std::exchange(pendingError, nullptr))`: never returns normally -/
  rethrowPending : M ω Unit
  /-- `WaitReadable(fd, t)` / `WaitWritable(fd, t)` (t in ms) -/
  sockWaitReadable : Int → M ω Bool
  sockWaitWritable : Int → M ω Bool
  /-- `ReceiveNow(fd, data, size)` -/
  sockReceiveNow : Int → M ω Int
  /-- `Receive(fd, data, size, timeout)` -/
  sockReceive : Int → Int → M ω (Option Int)
  /-- `SendNow / SendAll / SendTry(fd, data + off, len)` -/
  sockSendNow : Int → Int → M ω Int
  sockSendAll : Int → Int → M ω Int
  sockSendTry : Int → Int → M ω Int
  /-- `SendSome(fd, data + off, len, deadline)` with the fields `now`, `deadline` of the caller's deadline object:
  the result and the object's `now` afterwards (ns) -/
  sockSendSome : Int → Int → Int → Int → M ω (Int × Int)
  /-- `SSL_read(ssl, data, size)` -/
  sslRead : Int → M ω Int
  /-- `SSL_write_ex(ssl, data + off, len, &written)`: its result and `written` -/
  sslWriteEx : Int → Int → M ω (Int × Int)
  /-- `SSL_get_error(ssl, res)` -/
  sslGetError : Int → M ω Int
  /-- `SSL_is_init_finished(ssl)` -/
  sslIsInitFinished : M ω Int
  /-- `SSL_pending(ssl)` -/
  sslPending : M ω Int
  /-- `SSL_shutdown(ssl)` -/
  sslShutdown : M ω Int
  /-- `SslError(code)`: the `std::error_code` of an OpenSSL error -/
  sslError : Int → M ω Int

end SockModel.Gen

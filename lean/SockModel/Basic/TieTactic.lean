/-
Closing tactics for the source-derived tie theorems (DESIGN.md §0.7).  They do not look at the shape of the
generated definition beyond "nested `if`s over linear arithmetic", so a harmless reformatting of the C++
function (other nesting, `?:` instead of `if`, conditions negated or reordered) is re-proved unchanged.
-/

/-- both sides are `Int`/`Nat` valued `if`-trees over linear arithmetic -/
macro "tie_arith" : tactic => `(tactic| (
  repeat' split
  all_goals omega))

/-- both sides are `Bool` valued: `if`-trees whose leaves are `true`, `false` or `decide` of linear arithmetic -/
macro "tie_bool_arith" : tactic => `(tactic| (
  repeat' split
  all_goals simp only [Bool.true_eq, Bool.false_eq, decide_eq_true_eq, decide_eq_false_iff_not, decide_eq_decide,
    Bool.true_eq_false, Bool.false_eq_true, eq_self_iff_true]
  all_goals (try omega)))

/-- both sides are `if`-trees over linear arithmetic whose leaves are constructors -/
macro "tie_choice" : tactic => `(tactic| (
  repeat' split
  all_goals first
    | rfl
    | (exfalso; omega)
    | (simp_all <;> omega)))

/-
Decimal text <-> Nat over bytes (`List UInt8`): what `std::to_string(port)`,
`getnameinfo(NI_NUMERICSERV)`, `strtoul` / `strtoll` do with digit runs.
Core Lean only.
-/
namespace SockModel.Decimal

abbrev Bytes := List UInt8

/-- `'0' <= c && c <= '9'` -/
def isDigit (c : UInt8) : Bool := 0x30 ≤ c && c ≤ 0x39

def digitVal (c : UInt8) : Nat := c.toNat - 48

def digitChar (d : Nat) : UInt8 := UInt8.ofNat (48 + d)

/-- value of a digit run, most significant digit first (the accumulation loop of `strtoul`) -/
def decVal (ds : Bytes) : Nat := ds.foldl (fun acc c => acc * 10 + digitVal c) 0

/-- the same loop, saturating at `cap` (so that digit runs of a million characters cost
linear time in the driver; every comparison the model makes is against a bound ≤ `cap`) -/
def satStep (cap acc : Nat) (c : UInt8) : Nat := min (acc * 10 + digitVal c) cap
def satVal (cap : Nat) (ds : Bytes) : Nat := ds.foldl (satStep cap) 0

/-- non-empty and all digits -/
def isDigits (s : Bytes) : Bool := !s.isEmpty && s.all isDigit

def renderFuel : Nat → Nat → Bytes
  | 0, n => [digitChar (n % 10)]
  | f + 1, n => if n < 10 then [digitChar n] else renderFuel f (n / 10) ++ [digitChar (n % 10)]

/-- decimal text of `n` without sign, blanks or leading zeros (`std::to_string`) -/
def render (n : Nat) : Bytes := renderFuel n n

/-- the number a pure digit string denotes; `none` for anything else -/
def parseDec (s : Bytes) : Option Nat := if isDigits s then some (decVal s) else none

/-! ### lemmas -/

theorem decVal_append_single (xs : Bytes) (c : UInt8) : decVal (xs ++ [c]) = decVal xs * 10 + digitVal c := by
  simp [decVal, List.foldl_append]

theorem digitVal_digitChar (d : Nat) (h : d < 10) : digitVal (digitChar d) = d := by
  simp only [digitVal, digitChar, UInt8.toNat_ofNat']
  omega

theorem isDigit_digitChar (d : Nat) (h : d < 10) : isDigit (digitChar d) = true := by
  have h1 : (digitChar d).toNat = 48 + d := by
    simp only [digitChar, UInt8.toNat_ofNat']; omega
  simp only [isDigit, Bool.and_eq_true, decide_eq_true_eq, UInt8.le_iff_toNat_le, h1]
  constructor
  · show 48 ≤ 48 + d; omega
  · show 48 + d ≤ 57; omega

theorem decVal_renderFuel : ∀ (f n : Nat), n ≤ f → decVal (renderFuel f n) = n
  | 0, n, h => by
    have : n = 0 := by omega
    subst this
    simp [renderFuel, decVal, digitVal, digitChar]
  | f + 1, n, h => by
    unfold renderFuel
    by_cases h10 : n < 10
    · simp only [h10, if_true]
      simp [decVal, digitVal_digitChar n h10]
    · simp only [h10, if_false]
      rw [decVal_append_single, decVal_renderFuel f (n / 10) (by omega), digitVal_digitChar _ (by omega)]
      omega

theorem all_isDigit_renderFuel : ∀ (f n : Nat), (renderFuel f n).all isDigit = true
  | 0, n => by simp [renderFuel, isDigit_digitChar (n % 10) (by omega)]
  | f + 1, n => by
    unfold renderFuel
    by_cases h10 : n < 10
    · simp [h10, isDigit_digitChar n h10]
    · simp only [h10, if_false, List.all_append, all_isDigit_renderFuel f (n / 10), Bool.true_and]
      simp [isDigit_digitChar (n % 10) (by omega)]

theorem renderFuel_ne_nil : ∀ (f n : Nat), renderFuel f n ≠ []
  | 0, n => by simp [renderFuel]
  | f + 1, n => by
    unfold renderFuel
    by_cases h10 : n < 10 <;> simp [h10]

theorem decVal_render (n : Nat) : decVal (render n) = n := decVal_renderFuel n n (Nat.le_refl n)

theorem isDigits_render (n : Nat) : isDigits (render n) = true := by
  simp only [isDigits, render, Bool.and_eq_true, all_isDigit_renderFuel, and_true]
  have := renderFuel_ne_nil n n
  cases h : renderFuel n n with
  | nil => exact absurd h this
  | cons _ _ => rfl

theorem satVal_eq (cap : Nat) (ds : Bytes) : satVal cap ds = min (decVal ds) cap := by
  have key : ∀ (ds : Bytes) (a : Nat),
      ds.foldl (satStep cap) (min a cap) = min (ds.foldl (fun acc c => acc * 10 + digitVal c) a) cap := by
    intro ds
    induction ds with
    | nil => intro a; rfl
    | cons c cs ih =>
      intro a
      simp only [List.foldl_cons]
      have : satStep cap (min a cap) c = min (a * 10 + digitVal c) cap := by
        simp only [satStep]
        omega
      rw [this, ih]
  have := key ds 0
  simpa [satVal, decVal] using this

end SockModel.Decimal

/-
Shared helpers for the line protocol and small list lemmas.
Core Lean only (no Mathlib) so that `sockmodel` links as a lean_exe.
-/
namespace SockModel

/-- split a protocol line into blank-separated words -/
def words (s : String) : List String :=
  (s.trimAscii.toString.splitOn " ").filter (· ≠ "")

def parseNat? (s : String) : Option Nat := s.toNat?

def parseInt? (s : String) : Option Int := s.toInt?

/-- decode a lower-case hex string ("" = empty) into bytes -/
def hexVal (c : Char) : Option Nat :=
  if '0' ≤ c ∧ c ≤ '9' then some (c.toNat - '0'.toNat)
  else if 'a' ≤ c ∧ c ≤ 'f' then some (c.toNat - 'a'.toNat + 10)
  else none

def hexDecodeAux : List Char → List UInt8 → Option (List UInt8)
  | [], acc => some acc.reverse
  | [_], _ => none
  | a :: b :: rest, acc =>
    match hexVal a, hexVal b with
    | some x, some y => hexDecodeAux rest (UInt8.ofNat (x * 16 + y) :: acc)
    | _, _ => none

def hexDecode (s : String) : Option (List UInt8) :=
  if s = "-" then some [] else hexDecodeAux s.toList []

def hexDigit (n : Nat) : Char :=
  if n < 10 then Char.ofNat (n + '0'.toNat) else Char.ofNat (n - 10 + 'a'.toNat)

def hexEncode (bs : List UInt8) : String :=
  if bs.isEmpty then "-" else
  String.ofList (bs.flatMap fun b => [hexDigit (b.toNat / 16), hexDigit (b.toNat % 16)])

end SockModel

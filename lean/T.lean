import SockModel.Model.Fd
namespace SockModel.Fd
example (L L1 L' : Ledger) (n1 : L.nfault ≤ L1.nfault) (n2 : L1.nfault ≤ L'.nfault) : L.nfault ≤ L'.nfault := by
  omega
end SockModel.Fd

import SockModel.Drive.Common
import SockModel.Drive.C01
import SockModel.Drive.C02
import SockModel.Drive.C03
import SockModel.Drive.C04
import SockModel.Drive.C06
import SockModel.Drive.C09
import SockModel.Drive.C10
import SockModel.Drive.C11
import SockModel.Drive.C12
import SockModel.Drive.C13
import SockModel.Drive.C14
import SockModel.Drive.C15
import SockModel.Drive.C17
import SockModel.Drive.C18
/- Only the drivers: nothing under Props/ (and hence not Generated/Funcs.lean) is reachable from here, so the
`sockmodel` executable keeps building when a theorem of one property breaks against the current tree. -/
open SockModel.Drive

partial def readAll (h : IO.FS.Stream) (acc : Array String) : IO (Array String) := do
  let line ← h.getLine
  if line.isEmpty then return acc
  readAll h (acc.push (line.dropEndWhile (· == '\n')).toString)

def dispatch (mode : String) : Option (List String → Verdict) :=
  match mode with
  | "C10" => some SockModel.Drive.C10.runCase
  | "C10rx" => some SockModel.Drive.C10.runCaseRx
  | "C02" => some SockModel.Drive.C02.runCase
  | "C09" => some SockModel.Drive.C09.runCase
  | "C03" => some SockModel.Drive.C03.runCase
  | "C06" => some SockModel.Drive.C06.runCase
  | "C01" => some SockModel.Drive.C01.runCaseC01
  | "C07s" => some SockModel.Drive.C01.runCaseC07
  | "C16" => some SockModel.Drive.C01.runCaseC16
  | "C16step" => some SockModel.Drive.C01.runCaseC16step
  | "C04" => some SockModel.Drive.C04.runCaseC04
  | "C05" => some SockModel.Drive.C04.runCaseC05
  | "C08" => some SockModel.Drive.C04.runCaseC08
  | "C14" => some SockModel.Drive.C14.runCase
  | "C17" => some SockModel.Drive.C17.runCase
  | "C06legacy" => some SockModel.Drive.C06.runCaseLegacy
  | "C13" => some SockModel.Drive.C13.runCase
  | "C11" => some SockModel.Drive.C11.runCase
  | "C12" => some SockModel.Drive.C12.runCase
  | "C18" => some SockModel.Drive.C18.runCase
  | "C15" => some SockModel.Drive.C15.runCase
  | _ => none

def main (args : List String) : IO UInt32 := do
  match args with
  | [mode] =>
    match dispatch mode with
    | none => IO.eprintln s!"unknown mode {mode}"; return 2
    | some f =>
      let lines ← readAll (← IO.getStdin) #[]
      for (id, body) in splitCases lines.toList do
        IO.println (render id (f body))
      return 0
  | _ => IO.eprintln "usage: sockmodel <Cxx> < transcript"; return 2

import SockModel
open SockModel.Drive

partial def readAll (h : IO.FS.Stream) (acc : Array String) : IO (Array String) := do
  let line ← h.getLine
  if line.isEmpty then return acc
  readAll h (acc.push (line.dropEndWhile (· == '\n')).toString)

def dispatch (mode : String) : Option (List String → Verdict) :=
  match mode with
  | "C10" => some SockModel.Drive.C10.runCase
  | "C06" => some SockModel.Drive.C06.runCase
  | "C06legacy" => some SockModel.Drive.C06.runCaseLegacy
  | "C18" => some SockModel.Drive.C18.runCase
  | "C15" => some SockModel.Drive.C15.runCase
  | _ => none

def main (args : List String) : IO UInt32 := do
  match args with
  | [mode] =>
    match dispatch mode with
    | none => IO.eprintln s!"unknown mode {mode}"; return 2
    | some f =>
      let lines ← readAll (← IO.getStdin) #[]
      for (id, body) in splitCases lines.toList do
        IO.println (render id (f body))
      return 0
  | _ => IO.eprintln "usage: sockmodel <Cxx> < transcript"; return 2

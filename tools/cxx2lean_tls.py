"""Stage 5 of the source-derived tie (DESIGN.md §0.7.4): the TLS glue of src/socket_tls_impl.cpp.

The member functions of `SocketTlsImpl` are translated over `TlsWorld ω` (prelude
lean/SockModel/Basic/GenEffects.lean) into lean/SockModel/Generated/Tls.lean:

  * the glue's own state lives in the world: a read of `lastError`, `remainingTime`, `isReadable`,
    `isWritable`, `driverSendSuppressed` is `W.get_<field>`, an assignment is `W.set_<field> v`;
    `pendingSend = v` is `W.set_pendingSend off len`; `if(pendingError)` is `W.pendingErrorSet`;
    `std::rethrow_exception(std::exchange(pendingError, nullptr))` is `W.rethrowPending`;
  * libssl is the world: `SSL_read`, `SSL_write_ex` (result and `*written`), `SSL_get_error`,
    `SSL_is_init_finished`, `SSL_pending`, `SSL_shutdown`, `SslError`;
  * the socket layer below (stage 2: `WaitReadable`, `WaitWritable`, `ReceiveNow`, `Receive`, `SendNow`,
    `SendAll`, `SendTry`, `SendSome`) is the world too (`W.sock*`): the model of the glue (Model/Tls.lean)
    is written over exactly these functions of Model/Net.lean;
  * `UnderDeadline(lambda, remainingTime)` is INLINED: the body of the instantiation the call refers to
    is translated in place, `fn()` is the body of the lambda, the reference parameter `timeout` is the
    field it is bound to, `return` continues the caller;
  * `switch(x) { case C: ... }` whose groups all end in `return` / `throw` is an `if` chain on `x = C`;
  * `for(init; cond; inc) body` is `init; while(cond) { body; inc; }` (no `continue` inside); `++i`;
  * `DriverQuery(short &events)`: only the POLLOUT bit of `events` is looked at and changed; it is a
    `Bool` that goes in and comes out (the function returns the pair of its result and that bit).
`assert`s are skipped (the generated code is the NDEBUG behaviour; the model's `Cfg.asserts = false`).
"""
import copy, re
import cxx2lean as C
import cxx2lean_eff as E
from cxx2lean import Ty, Val, fail, kids, walk, BOOL, INTS, as_prop, as_bool, convert, Untranslatable
from cxx2lean_eff import EFn, Spec, SvVal, ObjVal, PTR, SV, VOID, ERRC, OPT, OBJ, MS, TPNS, I32, I64, U64, lean_ty, ptype

FIELDS = {"lastError": I32, "remainingTime": MS, "isReadable": BOOL, "isWritable": BOOL, "driverSendSuppressed": BOOL}
POLLOUT = 4

# callee name -> (world field, argument kinds, result type); kinds: "drop" | "ptr" | Ty
TLS_CALLS = {
    ("WaitReadable", 2): ("sockWaitReadable", ["drop", MS], BOOL),
    ("WaitWritable", 2): ("sockWaitWritable", ["drop", MS], BOOL),
    ("ReceiveNow", 3): ("sockReceiveNow", ["drop", "drop", U64], U64),
    ("Receive", 4): ("sockReceive", ["drop", "drop", U64, MS], OPT),
    ("SendNow", 3): ("sockSendNow", ["drop", "ptr", U64], U64),
    ("SendAll", 3): ("sockSendAll", ["drop", "ptr", U64], U64),
    ("SendTry", 3): ("sockSendTry", ["drop", "ptr", U64], U64),
    ("SSL_read", 3): ("sslRead", ["drop", "drop", I32], I32),
    ("SSL_get_error", 2): ("sslGetError", ["drop", I32], I32),
    ("SSL_is_init_finished", 1): ("sslIsInitFinished", ["drop"], I32),
    ("SSL_pending", 1): ("sslPending", ["drop"], I32),
    ("SSL_shutdown", 1): ("sslShutdown", ["drop"], I32),
    ("SslError", 1): ("sslError", [I32], ERRC),
    ("SocketError", 0): ("socketError", [], ERRC),
}
GLOBAL_CONSTS = ("zeroTimeout", "handshakeStepsMax")


class TlsFn(EFn):
    def __init__(self, repo, spec, specs, available, docs):
        EFn.__init__(self, repo, spec, specs, available)
        self.docs = docs
        self.wbase = "W.toWorld"
        self.inline_depth = 0

    # ---- fields ---------------------------------------------------------
    def field_of(self, n):
        n = C._strip(n)
        while n["kind"] == "ImplicitCastExpr" and n.get("castKind") in ("LValueToRValue", "NoOp"):
            n = C._strip(kids(n)[0])
        if n["kind"] == "MemberExpr" and n.get("name") in FIELDS and kids(n):
            b0 = C._strip(kids(n)[0])
            if b0["kind"] == "CXXThisExpr":
                return n["name"]
            # `sock.field` in a helper that was handed `*this` as `SocketTlsImpl &sock`
            if b0["kind"] == "DeclRefExpr" and self.env.get(b0.get("referencedDecl", {}).get("id")) == ("selfref",):
                return n["name"]
        if n["kind"] == "DeclRefExpr":
            b = self.env.get(n.get("referencedDecl", {}).get("id"))
            if isinstance(b, tuple) and b[0] == "fieldref":
                return b[1]
        return None

    def is_pending_error_test(self, n):
        n = C._strip(n)
        while n["kind"] == "ImplicitCastExpr":
            n = C._strip(kids(n)[0])
        return n["kind"] == "CXXMemberCallExpr" and kids(n) and kids(n)[0].get("name") == "operator bool" and \
            C.canon(kids(kids(n)[0])[0]) == "pendingError"

    def tls_call(self, n):
        if n.get("kind") != "CallExpr":
            return None
        try:
            name, kind, ref = self.callee(n)
        except Untranslatable:
            return None
        return TLS_CALLS.get((name, len(kids(n)) - 1)), name

    def pollbit_expr(self, n):
        """`events & POLLOUT` on the pollbits parameter -> its Bool"""
        n = C._strip(n)
        while n["kind"] == "ImplicitCastExpr":
            n = C._strip(kids(n)[0])
        if n["kind"] == "BinaryOperator" and n.get("opcode") == "&":
            a = C._strip(kids(n)[0])
            while a["kind"] == "ImplicitCastExpr":
                a = C._strip(kids(a)[0])
            if a["kind"] == "DeclRefExpr" and isinstance(self.env.get(a.get("referencedDecl", {}).get("id")), tuple) and \
                    self.env[a["referencedDecl"]["id"]][0] == "pollbits":
                try:
                    if C._const_int(kids(n)[1]) == POLLOUT:
                        return self.env[a["referencedDecl"]["id"]][1]
                except Untranslatable:
                    pass
        return None

    def is_eff(self, n):
        for x in walk(n):
            if self.field_of(x) is not None and x.get("kind") in ("MemberExpr", "DeclRefExpr"):
                return True
            if x.get("kind") == "CallExpr":
                t = self.tls_call(x)
                if t and (t[0] or t[1] in ("UnderDeadline", "SendSome", "SSL_write_ex", "rethrow_exception")):
                    return True
            if x.get("kind") == "CXXOperatorCallExpr" and self.lambda_call(x):
                return True
            if self.is_pending_error_test(x):
                return True
        return EFn.is_eff(self, n)

    def lambda_call(self, n):
        """`fn()` where fn is a parameter bound to a lambda (inside an inlined UnderDeadline)"""
        ks = kids(n)
        if n.get("kind") != "CXXOperatorCallExpr" or len(ks) != 2:
            return None
        a = C._strip(ks[1])
        while a["kind"] == "ImplicitCastExpr":
            a = C._strip(kids(a)[0])
        if a["kind"] == "DeclRefExpr":
            b = self.env.get(a.get("referencedDecl", {}).get("id"))
            if isinstance(b, tuple) and b[0] == "lambda":
                return b[1]
        return None

    def bind_special(self, p, a0):
        """`*this` handed to a `SocketTlsImpl &` parameter of a helper: the helper works on this object's fields"""
        if a0["kind"] == "UnaryOperator" and a0.get("opcode") == "*" and C._strip(kids(a0)[0])["kind"] == "CXXThisExpr" and \
                re.match(r"^(sockpuppet::)?SocketTlsImpl\s*&$", (p.get("type") or {}).get("qualType") or ""):
            return ("selfref",)
        return None

    # ---- pure expressions -------------------------------------------------
    def opt_local(self, n):
        n = C._strip(n)
        while n["kind"] == "ImplicitCastExpr":
            n = C._strip(kids(n)[0])
        if n["kind"] == "DeclRefExpr":
            b = self.env.get(n.get("referencedDecl", {}).get("id"))
            if isinstance(b, Val) and b.ty == OPT:
                return b
        return None

    def expr(self, n):
        # std::optional locals: `if(opt)` and `*opt`
        if n.get("kind") == "ImplicitCastExpr" and n.get("castKind") == "UserDefinedConversion":
            c = C._strip(kids(n)[0])
            if c["kind"] == "CXXMemberCallExpr" and kids(c)[0].get("name") == "operator bool":
                b = self.opt_local(kids(kids(c)[0])[0])
                if b is not None:
                    return Val("(%s.isSome = true)" % b.s, BOOL, True)
        if n.get("kind") == "CXXOperatorCallExpr" and len(kids(n)) == 2:
            try:
                if self.callee(n)[0] == "operator*":
                    b = self.opt_local(kids(n)[1])
                    if b is not None:
                        return Val("(%s.getD 0)" % b.s, U64)       # only reached under `if(opt)`
            except Untranslatable:
                pass
        if n.get("kind") == "CXXMemberCallExpr" and len(kids(n)) == 2 and kids(n)[0].get("kind") == "MemberExpr" and \
                kids(n)[0].get("name") == "value_or":
            b = self.opt_local(kids(kids(n)[0])[0])
            if b is not None:
                d = self.expr(kids(n)[1])
                if d.ty.kind != "int":
                    fail("value_or with a non-integer default")
                return Val("(%s.getD %s)" % (b.s, convert(d, U64).s), U64)
        pb = self.pollbit_expr(n)
        if pb is not None:
            return Val("(if %s = true then (%d : Int) else 0)" % (pb, POLLOUT), I32)
        if n.get("kind") == "DeclRefExpr" and n.get("referencedDecl", {}).get("name") in GLOBAL_CONSTS and \
                n["referencedDecl"].get("id") not in self.env:
            return self.global_const(n["referencedDecl"])
        if n.get("kind") == "UnaryExprOrTypeTraitExpr" and n.get("name") == "sizeof":
            # sizeof(buf) of a local char array
            m = re.match(r"^char\s*\[(\d+)\]$", ((kids(n)[0].get("type") or {}).get("qualType") or "") if kids(n) else
                         ((n.get("argType") or {}).get("qualType") or ""))
            if m:
                return Val("(%s : Int)" % m.group(1), U64)
            fail("sizeof outside the subset")
        return EFn.expr(self, n)

    def global_const(self, rd):
        for d in self.docs_all():
            for x in walk(d):
                if x.get("kind") == "VarDecl" and x.get("name") == rd.get("name") and kids(x) and \
                        (x.get("type") or {}).get("qualType") == (rd.get("type") or {}).get("qualType"):
                    saved = self.env
                    self.env = {}
                    try:
                        v = C.Fn.expr(self, kids(x)[-1])
                    finally:
                        self.env = saved
                    t = C.parse_type(x.get("type"))
                    return convert(v, t) if t is not None and t.kind == "int" and v.ty.kind == "int" else v
        fail("definition of the constant `%s` not found" % rd.get("name"))

    def docs_all(self):
        return self.docs

    # ---- effectful expressions ---------------------------------------------
    def ex(self, n, k):
        if not self.is_eff(n):
            return k(self.expr(n))
        f = self.field_of(n)
        if f is not None and n.get("kind") in ("MemberExpr", "DeclRefExpr"):
            r = self.fresh(f)
            return "%sM.bind (W.get_%s) fun %s =>\n%s" % (self.cur_pad, f, r, k(Val(r, FIELDS[f])))
        if self.is_pending_error_test(n):
            r = self.fresh("failed")
            return "%sM.bind (W.pendingErrorSet) fun %s =>\n%s" % (self.cur_pad, r, k(Val(r, BOOL)))
        if n.get("kind") == "CXXOperatorCallExpr" and self.lambda_call(n):
            lam, lenv = self.lambda_call(n)
            body = [c for c in kids(lam) if c["kind"] == "CompoundStmt"]
            if len(body) != 1:
                fail("lambda without a body")
            return self.inline_body(body[0], lenv, k)
        if n.get("kind") == "CXXMemberCallExpr" and kids(n) and kids(n)[0].get("name") == "count" and len(kids(n)) == 1:
            return self.ex(kids(kids(n)[0])[0], lambda v: k(Val(v.s, I64)) if v.ty.kind == "dur" else fail(".count() of a non-duration"))
        if n.get("kind") == "CallExpr":
            t, name = self.tls_call(n) or (None, None)
            args = kids(n)[1:]
            if name == "UnderDeadline" and len(args) == 2:
                return self.under_deadline(n, k)
            if t:
                field, kinds, rty = t
                vals = []
                if sum(1 for a, kd in zip(args, kinds) if kd != "drop" and self.is_eff(a)) > 1:
                    fail("more than one effectful argument")

                def go(i):
                    if i == len(args):
                        r = self.fresh("r")
                        return "%sM.bind (%s) fun %s =>\n%s" % (self.cur_pad, " ".join(["W.%s" % field] + vals), r, k(Val(r, rty)))
                    kd = kinds[i]
                    if kd == "drop":
                        return go(i + 1)
                    want = PTR if kd == "ptr" else kd

                    def got(v):
                        if v.ty != want:
                            if want.kind == "int" and v.ty.kind == "int":
                                v = convert(v, want)
                            else:
                                fail("argument %d of %s has type %r, expected %r" % (i, name, v.ty, want))
                        vals.append(v.s if re.match(r"^\w+$", v.s) or v.s.startswith("(") else "(%s)" % v.s)
                        return go(i + 1)
                    return self.ex(args[i], got)
                return go(0)
        return EFn.ex(self, n, k)

    def under_deadline(self, n, k):
        """inline the instantiation of `UnderDeadline(fn, timeout)` this call refers to"""
        name, kind, ref = self.callee(n)
        args = kids(n)[1:]
        lam = C._strip(args[0])
        while lam["kind"] in ("ImplicitCastExpr", "CXXConstructExpr", "CXXBindTemporaryExpr") and len(kids(lam)) == 1:
            lam = C._strip(kids(lam)[0])
        if lam["kind"] != "LambdaExpr":
            fail("first argument of UnderDeadline is not a lambda")
        f = self.field_of(args[1])
        if f != "remainingTime":
            fail("second argument of UnderDeadline is not the field remainingTime")
        inst = None
        for d in self.docs_all():
            for x in walk(d):
                # ids differ between clang runs: the instantiation is identified by its type, which names the lambda
                # by its source position
                if x.get("kind") == "FunctionDecl" and x.get("name") == "UnderDeadline" and C.body_of(x) is not None and \
                        (x.get("type") or {}).get("qualType") == (ref["referencedDecl"].get("type") or {}).get("qualType") and \
                        "lambda at" in ((x.get("type") or {}).get("qualType") or ""):
                    inst = x
        if inst is None:
            fail("body of this instantiation of UnderDeadline not found")
        pv = [c for c in kids(inst) if c["kind"] == "ParmVarDecl"]
        if len(pv) != 2:
            fail("UnderDeadline does not have two parameters")
        lenv = dict(self.env)         # the lambda captures the caller's names
        benv = {pv[0]["id"]: ("lambda", (lam, lenv)), pv[1]["id"]: ("fieldref", f)}
        return self.inline_body(C.body_of(inst), benv, k)

    def inline_body(self, body, env, k):
        """translate `body` in place with its own names; `return v` continues with k(v)"""
        if self.inline_depth > 3:
            fail("inlining too deep")
        saved = self.env
        saved_dt = self.decl_ty
        self.env = dict(env)
        self.decl_ty = dict(self.decl_ty)
        self.inline_depth += 1
        try:
            def done(v):
                inner_env, inner_dt = self.env, self.decl_ty
                self.env, self.decl_ty = saved, saved_dt
                try:
                    return k(v)
                finally:
                    self.env, self.decl_ty = inner_env, inner_dt
            ctx = {"end": lambda ind: fail("inlined body ends without a return"), "ret_k": done}
            return self.st([body], ctx, max(1, len(self.cur_pad) // 2))
        finally:
            self.inline_depth -= 1
            self.env = saved
            self.decl_ty = saved_dt

    # ---- statements ---------------------------------------------------------
    def st(self, ss, ctx, ind):
        pad = "  " * ind
        self.cur_pad = pad
        if not ss:
            return ctx["end"](ind)
        s, rest = ss[0], ss[1:]
        k = s["kind"]
        nxt = lambda: self.st(rest, ctx, ind)
        if k == "ReturnStmt" and ctx.get("ret_k"):
            if not kids(s):
                return ctx["ret_k"](Val("()", VOID))
            return self.ex(kids(s)[0], ctx["ret_k"])
        if k == "SwitchStmt":
            return self.switch(s, rest, ctx, ind)
        if k == "ForStmt":
            raw = [c for c in (s.get("inner") or [])]
            if len(raw) == 5 and any(isinstance(c, dict) and c.get("kind") for c in raw[:4]):
                init, _cv, cond, inc, body = raw
                if not (isinstance(cond, dict) and cond.get("kind")) or (isinstance(_cv, dict) and _cv.get("kind")):
                    fail("for loop without a condition / with a condition variable")
                for x in walk(body):
                    if x.get("kind") == "ContinueStmt":
                        fail("continue inside a for loop")
                wbody = {"kind": "CompoundStmt", "inner": [body] + ([inc] if isinstance(inc, dict) and inc.get("kind") else [])}
                wl = {"kind": "WhileStmt", "inner": [cond, wbody]}
                pre = [init] if isinstance(init, dict) and init.get("kind") else []
                return self.st(pre + [wl] + rest, ctx, ind)
        e = C._strip(s)
        if k == "DeclStmt" and len(kids(s)) == 1 and kids(s)[0]["kind"] == "VarDecl":
            d = kids(s)[0]
            ty = ((d.get("type") or {}).get("qualType") or "")
            if re.match(r"^(const\s+)?char\s*\[\d+\]$", ty):
                self.env[d["id"]] = "drop"           # a local receive buffer: only its address and size travel
                return nxt()
            inits = [c for c in kids(d) if not c["kind"].endswith("Attr")]
            if inits:
                call = C._strip(inits[-1])
                t = self.tls_call(call) if call["kind"] == "CallExpr" else None
                if t and t[1] == "SSL_write_ex":
                    return self.ssl_write_ex(d, call, nxt, pad)
                if t and t[1] == "SendSome" and len(kids(call)) == 5:
                    return self.sock_send_some(d, call, nxt, pad)
        # assignments to fields
        if e["kind"] in ("BinaryOperator", "CompoundAssignOperator", "CXXOperatorCallExpr"):
            ks = kids(e)
            if e["kind"] == "CXXOperatorCallExpr":
                try:
                    opname = self.callee(e)[0]
                except Untranslatable:
                    opname = None
                ks = ks[1:]
                op = {"operator=": "="}.get(opname)
            else:
                op = e.get("opcode")
            if op in ("=", "|=", "&=") and len(ks) == 2:
                lhs = ks[0]
                f = self.field_of(lhs)
                if f is not None:
                    return self.assign_field(f, op, ks[1], nxt, pad)
                if C.canon(lhs) == "pendingSend" and op == "=":
                    return self.assign_pending(ks[1], nxt, pad)
                l0 = C._strip(lhs)
                b = self.env.get(l0.get("referencedDecl", {}).get("id")) if l0["kind"] == "DeclRefExpr" else None
                if isinstance(b, tuple) and b[0] == "pollbits" and op in ("|=", "&="):
                    return self.assign_pollbits(l0["referencedDecl"]["id"], op, ks[1], nxt, pad)
        if e["kind"] == "UnaryOperator" and e.get("opcode") in ("++", "--"):
            t0 = C._strip(kids(e)[0])
            did = t0.get("referencedDecl", {}).get("id") if t0["kind"] == "DeclRefExpr" else None
            cur = self.env.get(did)
            if isinstance(cur, Val) and cur.ty.kind == "int" and cur.ty.signed:
                v = Val("(%s %s 1)" % (cur.s, "+" if e["opcode"] == "++" else "-"), cur.ty)
                txt, b = self.bind_local({"name": t0["referencedDecl"].get("name")}, v)
                self.env[did] = b
                return pad + txt + nxt()
        if e["kind"] == "CallExpr":
            t = self.tls_call(e)
            if t and t[1] == "rethrow_exception":
                if C.canon(e) not in ("rethrow_exception(exchange(pendingError,?CXXNullPtrLiteralExpr))",):
                    fail("rethrow of `%s`" % C.canon(e)[:60])
                return "%sM.bind (W.rethrowPending) fun _ =>\n%s" % (pad, nxt())
        return EFn.st(self, ss, ctx, ind)

    def switch(self, s, rest, ctx, ind):
        pad = "  " * ind
        parts = kids(s)
        if len(parts) != 2 or parts[1]["kind"] != "CompoundStmt":
            fail("switch shape")
        groups = []          # (labels or None for default, statements)

        def flatten(n):
            labels = []
            while n["kind"] in ("CaseStmt", "DefaultStmt"):
                if n["kind"] == "CaseStmt":
                    ck = [c for c in kids(n) if c["kind"] != "CaseStmt" and c["kind"] != "DefaultStmt"]
                    labels.append(C._const_int(kids(n)[0]))
                    n = kids(n)[-1]
                else:
                    labels.append(None)
                    n = kids(n)[-1]
            return labels, n
        for c in kids(parts[1]):
            if c["kind"] in ("CaseStmt", "DefaultStmt"):
                labels, first = flatten(c)
                groups.append((labels, [first]))
            else:
                if not groups:
                    fail("statement before the first case")
                groups[-1][1].append(c)
        for labels, stmts in groups:
            last = C._strip(stmts[-1])
            if last["kind"] not in ("ReturnStmt", "CXXThrowExpr"):
                fail("a case group that does not end in return / throw")

        def chain(v):
            def go(i, ind2):
                p2 = "  " * ind2
                if i == len(groups):
                    return self.st(rest, ctx, ind2)
                labels, stmts = groups[i]
                if None in labels:
                    if i != len(groups) - 1:
                        fail("default is not the last group")
                    return self.st(stmts, ctx, ind2)
                cond = " ∨ ".join("%s = (%d : Int)" % (v.s, l) for l in labels)
                saved = dict(self.env)
                th = self.st(stmts, ctx, ind2 + 1)
                self.env = dict(saved)
                el = go(i + 1, ind2 + 1)
                self.env = saved
                return "%sif %s then\n%s\n%selse\n%s" % (p2, cond, th, p2, el)
            if v.ty.kind != "int":
                fail("switch on a non-integer")
            return go(0, ind)
        return self.ex(parts[0], chain)

    def assign_field(self, f, op, rhs, nxt, pad):
        ty = FIELDS[f]
        if op == "=":
            def got(v):
                if v.ty != ty:
                    if ty.kind == "int" and v.ty.kind in ("int", "bool"):
                        v = convert(v, ty)
                    elif ty.kind == "dur" and v.ty.kind == "dur":
                        v = Val(C.Chrono.to_period(v, ty), ty)
                    else:
                        fail("assignment of %r to the field %s" % (v.ty, f))
                val = as_bool(v) if ty == BOOL else v.s
                return "%sM.bind (W.set_%s (%s)) fun _ =>\n%s" % (pad, f, val, nxt())
            return self.ex(rhs, got)
        if op == "|=" and ty == BOOL:
            pb = self.pollbit_expr(rhs)
            if pb is None:
                fail("`%s |=` of something else than `events & POLLOUT`" % f)
            cur = self.fresh(f)
            return "%sM.bind (W.get_%s) fun %s =>\n%sM.bind (W.set_%s (%s || %s)) fun _ =>\n%s" % (pad, f, cur, pad, f, cur, pb, nxt())
        fail("assignment operator %s on the field %s" % (op, f))

    def assign_pending(self, rhs, nxt, pad):
        r = C._strip(rhs)
        while r["kind"] in ("ImplicitCastExpr", "CXXConstructExpr", "MaterializeTemporaryExpr", "CXXFunctionalCastExpr") and len(kids(r)) == 1:
            r = C._strip(kids(r)[0])
        if r["kind"] in ("InitListExpr", "CXXConstructExpr", "CXXTemporaryObjectExpr", "CXXScalarValueInitExpr") and not kids(r):
            return "%sM.bind (W.set_pendingSend 0 0) fun _ =>\n%s" % (pad, nxt())
        if r["kind"] == "DeclRefExpr":
            b = self.env.get(r.get("referencedDecl", {}).get("id"))
            if isinstance(b, SvVal):
                return "%sM.bind (W.set_pendingSend %s %s) fun _ =>\n%s" % (pad, b.off, b.len, nxt())
        fail("pendingSend = %s" % r["kind"])

    def assign_pollbits(self, did, op, rhs, nxt, pad):
        try:
            r0 = C._strip(rhs)
            while r0["kind"] == "ImplicitCastExpr":
                r0 = C._strip(kids(r0)[0])
            if op == "|=" and C._const_int(rhs) == POLLOUT:
                new = "true"
            elif op == "&=" and r0["kind"] == "UnaryOperator" and r0.get("opcode") == "~" and C._const_int(kids(r0)[0]) == POLLOUT:
                new = "false"
            else:
                fail("events %s ..." % op)
        except Untranslatable:
            fail("`events %s` of something else than POLLOUT" % op)
        nm = self.fresh("pollOut")
        self.env[did] = ("pollbits", nm)
        return "%slet %s : Bool := %s\n%s" % (pad, nm, new, nxt())

    def ssl_write_ex(self, d, call, nxt, pad):
        args = kids(call)[1:]
        if len(args) != 4:
            fail("SSL_write_ex with %d arguments" % len(args))
        out = C._strip(args[3])
        if out["kind"] != "UnaryOperator" or out.get("opcode") != "&":
            fail("last argument of SSL_write_ex is not `&local`")
        o = C._strip(kids(out)[0])
        oid = o.get("referencedDecl", {}).get("id") if o["kind"] == "DeclRefExpr" else None
        if not isinstance(self.env.get(oid), Val):
            fail("`written` is not an initialised local")
        p, ln = self.expr(args[1]), self.expr(args[2])
        if p.ty != PTR or ln.ty.kind != "int":
            fail("SSL_write_ex(%r, %r)" % (p.ty, ln.ty))
        res, wr = self.fresh(d.get("name")), self.fresh(o["referencedDecl"].get("name"))
        self.env[d["id"]] = Val(res, I32)
        self.decl_ty[d["id"]] = I32
        self.env[oid] = Val(wr, self.env[oid].ty)
        return "%sM.bind (W.sslWriteEx %s %s) fun rw =>\n%slet %s : Int := rw.1\n%slet %s : Int := rw.2\n%s" % (
            pad, p.s, ln.s, pad, res, pad, wr, nxt())

    def sock_send_some(self, d, call, nxt, pad):
        args = kids(call)[1:]
        p, ln = self.expr(args[1]), self.expr(args[2])
        o = C._strip(args[3])
        b = self.env.get(o.get("referencedDecl", {}).get("id")) if o["kind"] == "DeclRefExpr" else None
        if p.ty != PTR or ln.ty.kind != "int" or not isinstance(b, ObjVal) or b.cls != "DeadlineLimited":
            fail("SendSome(fd, data, size, deadline) outside the subset")
        res, nn = self.fresh(d.get("name")), self.fresh(b.fields["now"])
        self.env[d["id"]] = Val(res, U64)
        self.decl_ty[d["id"]] = U64
        nb = ObjVal(b.fields, b.cls)
        nb.fields["now"] = nn
        self.env[o["referencedDecl"]["id"]] = nb
        # the callee ticks the caller's deadline object: its `now` comes back with the result
        return "%sM.bind (W.sockSendSome %s %s %s %s) fun sn =>\n%slet %s : Int := sn.1\n%slet %s : Int := sn.2\n%s" % (
            pad, p.s, ln.s, b.fields["now"], b.fields["deadline"], pad, res, pad, nn, nxt())

    def ret_val(self, v):
        if self.spec_e.name == "Tls_DriverQuery":
            pb = [b for b in self.env.values() if isinstance(b, tuple) and b[0] == "pollbits"]
            return "(%s, %s)" % (as_bool(v), pb[0][1])
        return EFn.ret_val(self, v)


def TLS_SPECS():
    D = "drop"
    F = "socket_tls_impl.cpp"
    S = lambda name, cname, params, ret, flt=None, nparams=None: Spec(name, F, flt or ("SocketTlsImpl::" + cname), cname, params, ret,
                                                                      nparams=nparams, world="TlsWorld")
    return [
        S("Tls_HandleError", "HandleError", [("error", I32)], BOOL),
        S("Tls_HandleLastError", "HandleLastError", [], BOOL),
        S("Tls_HandleResult", "HandleResult", [("res", I32)], BOOL),
        S("Tls_BioRead", "BioRead", [("data", D), ("size", U64)], U64),
        S("Tls_BioWrite", "BioWrite", [("data", "ptr"), ("size", U64)], U64),
        S("Tls_Read", "Read", [("data", D), ("size", U64)], U64),
        S("Tls_Write", "Write", [("data", "ptr"), ("size", U64)], U64),
        S("Tls_ReceiveT", "Receive", [("data", D), ("size", U64), ("timeout", MS)], OPT, nparams=3),
        S("Tls_ReceiveReadable", "Receive", [("data", D), ("size", U64)], U64, nparams=2),
        S("Tls_SendT", "Send", [("data", "ptr"), ("size", U64), ("timeout", MS)], U64),
        S("Tls_SendSomeWritable", "SendSome", [("data", "ptr"), ("size", U64)], U64),
        S("Tls_DriverQuery", "DriverQuery", [("events", "pollbits")], BOOL),
        S("Tls_DriverPending", "DriverPending", [], VOID),
        S("Tls_Shutdown", "Shutdown", [], VOID),
    ]


def jobs():
    return sorted({(s.src, s.flt) for s in TLS_SPECS()} | {("socket_tls_impl.cpp", "UnderDeadline"),
                                                           ("socket_tls_impl.cpp", "zeroTimeout"),
                                                           ("socket_tls_impl.cpp", "handshakeStepsMax")})


def translate(repo, available, ast_of):
    out = []
    avail = set(available)
    specs = TLS_SPECS()
    extra = []
    for j in [("socket_tls_impl.cpp", "UnderDeadline"), ("socket_tls_impl.cpp", "zeroTimeout"), ("socket_tls_impl.cpp", "handshakeStepsMax")]:
        d, err = ast_of(*j)
        extra += d or []
    for spec in specs:
        docs, err = ast_of(spec.src, spec.flt)
        try:
            if docs is None:
                fail(err)
            fn = find_member(docs, spec)
            t = TlsFn(repo, spec, specs, avail, docs + extra)
            t.file = None
            t.bind_params(fn)
            t.file = C._file_of(repo, docs, fn, spec.src)
            body = t.run(fn)
            sig = "".join(" (%s : %s)" % p for p in t.params_lean)
            rt = "(Bool × Bool)" if spec.name == "Tls_DriverQuery" else lean_ty(spec.ret)
            text = "".join(l.replace("M ω %s" % lean_ty(spec.ret), "M ω %s" % rt) + "\n" for l in t.loops)
            text += "/-- src/%s: `SocketTlsImpl::%s` -/\ndef %s {ω : Type} (W : TlsWorld ω) (fuel : Nat)%s : M ω %s :=\n%s\n" % (
                spec.src, spec.cname, spec.name, sig, rt, body)
            out.append((spec.name, True, text))
            avail.add(spec.name)
        except Untranslatable as e:
            out.append((spec.name, False, str(e)))
        except (KeyError, IndexError, TypeError, ValueError, AttributeError) as e:
            out.append((spec.name, False, "unexpected AST shape (%s: %s)" % (type(e).__name__, e)))
    return out


def find_member(docs, spec):
    found = {}
    for d in docs:
        for x in walk(d):
            if x.get("kind") == "CXXMethodDecl" and x.get("name") == spec.cname and C.body_of(x) is not None:
                if len([c for c in kids(x) if c["kind"] == "ParmVarDecl"]) == spec.nparams:
                    # a member of SocketTlsImpl
                    if any(y.get("kind") == "CXXThisExpr" and "SocketTlsImpl" in ((y.get("type") or {}).get("qualType") or "")
                           for y in walk(x)):
                        found[x.get("id")] = x
    if len(found) != 1:
        fail("expected exactly one definition of SocketTlsImpl::%s with %d parameters, found %d" % (spec.cname, spec.nparams, len(found)))
    return list(found.values())[0]

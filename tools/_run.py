import sys, os, importlib, random
ROOT=os.path.dirname(os.path.dirname(os.path.abspath(__file__)))
sys.path.insert(0, os.path.join(ROOT,"tools")); sys.path.insert(0, ROOT)
import vlib
exec(open(os.path.join(ROOT,"check")).read().split("def replay_text")[0].split("import vlib  # noqa: E402")[1])
prop=sys.argv[1]; tier=sys.argv[2]; seed=int(sys.argv[3]) if len(sys.argv)>3 else 1
mod=importlib.import_module("props."+prop.lower())
r=Runner(mod)
cases=load_corpus(prop)+mod.gen(random.Random(repr((seed,prop,tier))), tier)
print(len(cases),"cases")
res=r.run(cases)
bad=[(h,c,o) for h,c,o in cases if res[c][0]=="FAIL"]
print(len(bad),"failures")
seen=set()
for h,c,o in bad[:200]:
    st,kind,msg,tr=res[c]
    key=(kind,msg[:50])
    if key in seen: continue
    seen.add(key)
    print("----",h,c,kind,msg)
    print("   ops:", "; ".join(o))
    if len(seen)>8: break

#!/usr/bin/env python3
"""Prints the 'status at a glance' table of DESIGN.md section 0.0 from the sources (developer tool)."""
import glob, json, os, re, sys
ROOT = os.path.dirname(os.path.dirname(os.path.abspath(__file__)))
sys.path.insert(0, ROOT); sys.path.insert(0, os.path.join(ROOT, "tools"))
import vlib  # noqa

rows = {}
for l in open(os.path.join(ROOT, "seeded", "RESULTS.md")):
    if l.startswith("| C"):
        c = [x.strip() for x in l.split("|")]
        rows.setdefault(c[2], []).append(c[3])
print("| property | theorems (audited) | of which source-derived ties | run-time oracle | spec_holds_on_model | seeded changes caught |")
print("|---|---|---|---|---|---|")
for i in range(1, 19):
    p = "C%02d" % i
    names = vlib.prop_theorems(p)
    ties = [n for n in names if re.search(r"(^|\.)(tie_|gen_|.*_tie$|.*_loop$|.*_rel$|.*_run$|model_.*_arith|model_get_choice)", n.split(".")[-1])]
    spec = [os.path.basename(f) for f in glob.glob(os.path.join(ROOT, "lean/SockModel/Spec/*.lean"))]
    has = [s for s in spec if s.startswith(p)] or (["C04.lean (shared)"] if p in ("C05", "C08") and "C04.lean" in spec else []) \
        or (["C07.lean / C01.lean"] if p == "C16" and "C16.lean" in spec else []) \
        or (["Uri.lean (shared)"] if p in ("C11", "C12") and "Uri.lean" in spec else [])
    shm = [n.split(".")[-1] for n in names if "spec_holds_on_model" in n]
    res = rows.get(p, [])
    caught = sum(1 for r in res if r.startswith("caught"))
    print("| %s | %d | %d | %s | %s | %d of %d |" % (p, len(names), len(ties), ", ".join("Spec/" + h for h in has) or "in Drive/", ", ".join(shm) or "-", caught, len(res)))

"""Stage 2 of the source-derived tie (DESIGN.md §0.7): the small EFFECTFUL functions and loops.

Every call that leaves the library (`DoPoll`, `Interrupted`, `Clock::now`, `::send`, `::recv`,
`SocketError`) becomes a call of a field of `World ω` (hand-written prelude
lean/SockModel/Basic/GenEffects.lean); the world state `ω` is threaded explicitly through the
state-and-exception monad `M ω α := ω → Res α × ω`; `throw X(..)` becomes `M.throw` with the class
name kept; calls of other translated functions become calls of their generated definitions
(effectful ones get the world and the fuel, pure stage-1 leaves such as `ToMsec`,
`DeadlineLimited_Remaining` are called as they are).

Loops (`do B while(c)`, `for(;;) B`, `while(c) B` with `break` / `continue` / `return` inside) become a
separate definition `<F>_loop<k>` by structural recursion on a fuel counter (`0 => M.halt`); the locals
assigned inside the loop are its arguments, the statements after the loop are inlined at every exit.

TRUSTED in addition to stage 1 (see the generated header):
  * `char *` values are offsets from the pointer parameter they are derived from (`p + n`), a
    `std::string_view(p, n)` is the pair (offset, length): `.data()`, `.size()`, `.empty()`,
    `.remove_prefix(k)` (precondition k <= size(), as in the standard) act on the pair;
  * `DeadlineLimited` / `Clocked` objects are their fields; constructor and `Tick()` are read from
    the AST (exactly the initialisers `now(Clock::now())`, `deadline(<expr>)`, empty bodies);
  * the order of evaluation: an expression with more than one effectful operand whose order C++
    leaves open is rejected;
  * handles / buffers that only travel to the system calls (`fd`, `pfds`, `count`, `events`, `flags`)
    are dropped; the message text of exceptions is dropped, the class and the error code are kept.
Anything else: `-- UNTRANSLATABLE <name>: <reason>`.
"""
import copy, os, re
import cxx2lean as C
from cxx2lean import Ty, Val, fail, kids, walk, BOOL, INTS, as_prop, as_bool, convert, lean_ident, need_type, Untranslatable

PTR, SV, VOID, ERRC, OPT, OBJ, DROPT = Ty("ptr"), Ty("sv"), Ty("void"), Ty("errc"), Ty("opt"), Ty("obj"), Ty("drop")
I32, I64, U64 = INTS["int"], INTS["long"], INTS["unsigned long"]
MS = Ty("dur", num=1, den=1000)
TPNS = Ty("tp", num=1, den=1000000000)

DROP_TYPES = ("pollfd", "pollfd *", "struct pollfd", "std::promise<void>", "std::future<void>")


def ptype(t):
    """stage-1 types plus the few stage-2 ones; None = outside the subset"""
    r = C.parse_type(t)
    if r is not None:
        return r
    s = ((t or {}).get("desugaredQualType") or (t or {}).get("qualType") or "").strip()
    s = re.sub(r"\s*(&&|&)$", "", s)
    s0 = re.sub(r"^const\s+", "", s)
    s0 = re.sub(r"\s*const$", "", s0).strip()
    if s0 in ("char *", "const char *", "char const *") or s in ("const char *",):
        return PTR
    if s0 in ("std::string_view", "std::basic_string_view<char>", "string_view", "basic_string_view<char>"):
        return SV
    if s0 == "void":
        return VOID
    if s0 == "std::error_code":
        return ERRC
    if s0 in ("std::optional<unsigned long>", "std::optional<size_t>"):
        return OPT
    if obj_class(t):
        return OBJ
    if s0 in DROP_TYPES:
        return DROPT
    return None


def lean_ty(ty):
    if ty == BOOL:
        return "Bool"
    if ty == VOID:
        return "Unit"
    if ty == OPT:
        return "(Option Int)"
    return "Int"


# ---- what a call means -------------------------------------------------------------------------
# world boundary: callee name -> (field of World, kinds of the arguments, result type)
#   argument kinds: "drop" (handle / buffer that only travels to the system call), "ptr", or a type
WORLD = {
    "DoPoll": ("doPoll", ["drop", "drop", I32], I32),
    "Interrupted": ("interrupted", [], BOOL),
    "now": ("clockNow", [], TPNS),                       # Clock::now(), spelling checked
    "send": ("send", ["drop", "ptr", U64, "drop"], I64),  # ::send(fd, data, size, flags)
    "recv": ("recv", ["drop", "drop", U64, "drop"], I64),  # ::recv(fd, data, size, flags): the bytes are not modelled
    "SocketError": ("socketError", [], ERRC),
}
WORLD_SPELLING = {"now": ("Clock::now", "std::chrono::steady_clock::now"), "send": ("::send",), "recv": ("::recv",)}

# pure stage-1 leaves callable from stage-2 code: callee name -> (generated name, argument types, result)
NS = Ty("dur", num=1, den=1000000000)
PURE = {"ToMsec": ("ToMsec", [MS], I32), "MinDuration": ("MinDuration", [NS, MS], MS)}
# methods of a DeadlineLimited object: pure ones are stage-1 leaves over its fields
OBJ_FIELDS = ["now", "deadline"]
OBJ_PURE = {"Remaining": ("DeadlineLimited_Remaining", MS), "TimeLeft": ("DeadlineLimited_TimeLeft", BOOL)}
# the deadline flavours of wait.h: their fields and their pure methods (stage-1 leaves over the listed fields)
OBJ_CLASSES = {
    "DeadlineLimited": (["now", "deadline"], {"Remaining": ("DeadlineLimited_Remaining", MS, ["now", "deadline"]),
                                              "TimeLeft": ("DeadlineLimited_TimeLeft", BOOL, ["now", "deadline"])}),
    "DeadlineUnlimitedTime": (["now"], {"Remaining": ("Unlimited_Remaining", MS, []), "TimeLeft": ("Unlimited_TimeLeft", BOOL, [])}),
    "DeadlineZeroTime": (["now"], {"Remaining": ("ZeroLimited_Remaining", MS, []), "TimeLeft": ("ZeroLimited_TimeLeft", BOOL, [])}),
}


def obj_class(t):
    s0 = ((t or {}).get("desugaredQualType") or (t or {}).get("qualType") or "").strip()
    s0 = re.sub(r"^const\s+", "", re.sub(r"\s*(&&|&)$", "", s0)).strip()
    s0 = s0.split("::")[-1]
    return s0 if s0 in OBJ_CLASSES else None

# the abstract deque / task interface of StepTodos (functions with `world="TodoWorld"` only): canonical text of the
# C++ expression -> (field of TodoWorld, result type, local that must be the reference to the front / the moved task)
TODO_WORLD = {
    "front->when": ("frontWhen", TPNS, "front"),
    "todos.pop_front()": ("popFront", VOID, None),
    "todos.empty()": ("todosEmpty", BOOL, None),
    "operator()(task->what)": ("runTask", VOID, "task"),
}

EXN_CLASSES = {"std::system_error": "system_error", "std::runtime_error": "runtime_error", "std::logic_error": "logic_error"}


class Spec:
    def __init__(self, name, src, flt, cname, params, ret, nparams=None, needs=(), world="World", objcls=None, targ=None):
        self.name, self.src, self.flt, self.cname = name, src, flt, cname
        self.world, self.objcls, self.targ = world, objcls, targ      # targ: template argument of the instantiation
        self.params = params          # [(c name, kind)]: "drop" | "ptr" | "obj" | Ty
        self.ret = ret
        self.nparams = nparams if nparams is not None else len(params)
        self.needs = needs            # stage-1 leaves / helpers whose absence makes this untranslatable


def EFF_SPECS():
    D = "drop"
    return [
        Spec("DoPollUninterrupted", "wait.cpp", "DoPollUninterrupted", "DoPollUninterrupted",
             [("pfds", D), ("count", D), ("timeout", MS)], I32,
             needs=("ToMsec", "DeadlineLimited_deadline", "DeadlineLimited_Remaining")),
        # (the file-local `Wait(SOCKET, short, Duration)` and any other helper of the translation unit are inlined)
        Spec("WaitPfds", "wait.cpp", "sockpuppet::Wait", "Wait", [("pfds", D), ("timeout", MS)], BOOL),   # the driver's wait
        Spec("WaitReadable", "wait.cpp", "WaitReadable", "WaitReadable", [("fd", D), ("timeout", MS)], BOOL),
        Spec("WaitWritable", "wait.cpp", "WaitWritable", "WaitWritable", [("fd", D), ("timeout", MS)], BOOL),
        Spec("ReceiveNow", "socket_impl.cpp", "ReceiveNow", "ReceiveNow", [("fd", D), ("data", D), ("size", U64)], U64),
        Spec("Receive", "socket_impl.cpp", "sockpuppet::Receive", "Receive",
             [("fd", D), ("data", D), ("size", U64), ("timeout", MS)], OPT),
        Spec("SendNow", "socket_impl.cpp", "SendNow", "SendNow", [("fd", D), ("data", "ptr"), ("size", U64)], U64),
        Spec("SendAll", "socket_impl.cpp", "SendAll", "SendAll", [("fd", D), ("data", "ptr"), ("size", U64)], U64),
        Spec("SendTry", "socket_impl.cpp", "SendTry", "SendTry", [("fd", D), ("data", "ptr"), ("size", U64)], U64),
        Spec("SendSome", "socket_impl.cpp", "sockpuppet::SendSome", "SendSome",
             [("fd", D), ("data", "ptr"), ("size", U64), ("deadline", "obj")], U64,
             needs=("DeadlineLimited_Remaining", "DeadlineLimited_TimeLeft"), objcls="DeadlineLimited"),
        # SocketAsyncImpl::DriverSend / DriverSendTo over the abstract queue / promise / buffer / socket interface
        Spec("DriverSend", "socket_async_impl.cpp", "SocketAsyncImpl::DriverSend", "DriverSend", [("q", "queue")], BOOL,
             world="QueueWorld"),
        Spec("DriverSendTo", "socket_async_impl.cpp", "SocketAsyncImpl::DriverSend", "DriverSendTo", [("q", "queue")], BOOL,
             world="QueueWorld"),
        # the enqueue side: SocketAsyncImpl::Send / SendTo -> DoSend<Queue> -> DoSendEnqueue<Queue> (instantiations told
        # apart by their number of parameters)
        # (`DoSend<Queue>` and `DoSendEnqueue<Queue>` are inlined into these two)
        Spec("AsyncSend", "socket_async_impl.cpp", "SocketAsyncImpl::Send", "Send", [("buffer", D)], VOID, world="QueueWorld"),
        Spec("AsyncSendTo", "socket_async_impl.cpp", "SocketAsyncImpl::Send", "SendTo", [("buffer", D), ("dstAddr", D)], VOID,
             world="QueueWorld"),
        # Driver::DriverImpl::StepTodos<Deadline>, one definition per instantiation, over the abstract deque / task
        # interface `TodoWorld`
        Spec("StepTodos_Unlimited", "driver_impl.cpp", "DriverImpl::Step", "StepTodos", [("deadline", "obj")], MS,
             needs=("MinDuration", "Unlimited_Remaining", "Unlimited_TimeLeft"), world="TodoWorld",
             objcls="DeadlineUnlimitedTime", targ="DeadlineUnlimitedTime"),
        Spec("StepTodos_Zero", "driver_impl.cpp", "DriverImpl::Step", "StepTodos", [("deadline", "obj")], MS,
             needs=("MinDuration", "ZeroLimited_Remaining", "ZeroLimited_TimeLeft"), world="TodoWorld",
             objcls="DeadlineZeroTime", targ="DeadlineZeroTime"),
        Spec("StepTodos_Limited", "driver_impl.cpp", "DriverImpl::Step", "StepTodos", [("deadline", "obj")], MS,
             needs=("MinDuration", "DeadlineLimited_Remaining", "DeadlineLimited_TimeLeft"), world="TodoWorld",
             objcls="DeadlineLimited", targ="DeadlineLimited"),
    ]


# the abstract queue / promise / buffer / socket interface of SocketAsyncImpl::DriverSend(To) (functions with
# `world="QueueWorld"`): canonical text of the CALLEE -> (field, result type, argument patterns, provenance).
# An argument pattern is a canonical text the argument must have (it only travels to the call) or a type (the
# argument is translated and passed on).  Provenance: the structured binding `auto &&[promise, buffer(, addr)] =
# q.front()` - the names must be bindings number 0, 1, 2 of exactly that declaration.
QUEUE_WORLD = {
    "q.size": ("qSize", U64, []),
    "q.empty": ("qEmpty", BOOL, []),
    "q.pop": ("qPop", VOID, []),
    "buffer->size": ("bufferSize", U64, []),
    "buffer->erase": ("bufferErase", VOID, ["0", U64]),
    "promise.set_value": ("promiseSetValue", VOID, []),
    "promise.set_exception": ("promiseSetException", VOID, ["make_exception_ptr(e)"]),
    "buff->sock->SendSome": ("sockSendSome", U64, ["buffer->data()", U64]),
    "buff->sock->SendTo": ("sockSendTo", U64, ["buffer->data()", U64, "addr->ForUdp()"]),
    "buff->sock->DriverPending": ("sockDriverPending", VOID, []),
    # the enqueue side (`SocketAsyncImpl::DoSend` / `DoSendEnqueue`)
    "q.emplace": ("qEmplace", VOID, None),                     # the arguments (promise, buffer[, address]) only travel
    "ptr->AsyncWantSend": ("driverAsyncWantSend", VOID, ["buff->sock->fd"]),
}
QUEUE_BINDINGS = {"promise": 0, "buffer": 1, "addr": 2}
CATCHABLE = {"std::runtime_error": "runtime_error", "std::logic_error": "logic_error", "std::system_error": "system_error"}


class SvVal:
    """`std::string_view(p, n)`: the cursor `off` (a Lean name, the only part that changes) and the text of the
    immutable end `p + n`; the length is derived (`end - off`), so that a shrinking view and a byte counter
    have the same canonical loop state: one offset"""
    def __init__(self, off, end):
        self.off, self.end, self.ty = off, end, SV

    @property
    def len(self):
        return "(%s - %s)" % (self.end, self.off)


class ObjVal:
    def __init__(self, fields, cls="DeadlineLimited"):
        self.fields, self.ty, self.cls = dict(fields), OBJ, cls

    @property
    def order(self):
        return OBJ_CLASSES[self.cls][0]


class EFn(C.Fn):
    """translation of one effectful function"""

    def __init__(self, repo, spec, specs, available):
        C.Fn.__init__(self, repo, [], {})
        self.spec_e = spec
        self.specs = {(s.cname, s.nparams): s for s in specs if s.targ is None}
        self.available = available        # names that really exist in the generated file so far
        self.tmp = 0
        self.names = set()
        self.loops = []                   # texts of the loop definitions
        self.nloops = 0
        self.params_lean = []             # [(lean name, lean type)] of the function itself
        self.depends = set()
        self.inline_depth = 0
        self.locked = False
        self.cur_pad = "  "
        self.wbase = "W" if spec.world == "World" else "W.toWorld"

    # ---- names ---------------------------------------------------------
    def fresh(self, base):
        base = lean_ident(re.sub(r"[^A-Za-z0-9_]", "_", base) or "x")
        name, i = base, 0
        while name in self.names or name in ("W", "fuel", "n"):
            i += 1
            name = "%s%d" % (base, i)
        self.names.add(name)
        return name

    def use(self, gen_name):
        if gen_name not in self.available:
            fail("needs `%s`, which is not available (untranslatable itself)" % gen_name)
        self.depends.add(gen_name)

    # ---- classification of calls ----------------------------------------
    def call_target(self, n):
        """('world', field, kinds, ret) | ('eff', spec) | ('pure', gen, types, ret) | None"""
        if n["kind"] == "CXXMemberCallExpr":
            # a call of another member function of the same object (`this->` implicit)
            me = kids(n)[0]
            if me.get("kind") == "MemberExpr" and kids(me) and C._strip(kids(me)[0]).get("kind") == "CXXThisExpr":
                key = (me.get("name"), len(kids(n)) - 1)
                if key in self.specs and self.specs[key].world == self.spec_e.world:
                    return ("eff", self.specs[key])
            return None
        if n["kind"] != "CallExpr":
            return None
        try:
            name, kind, ref = self.callee(n)
        except Untranslatable:
            return None
        nargs = len(kids(n)) - 1
        if name in WORLD and len(WORLD[name][1]) == nargs:
            src = re.sub(r"\s+", "", self.source_text(ref) or "")
            if name in WORLD_SPELLING and src not in WORLD_SPELLING[name]:
                return None
            return ("world",) + WORLD[name]
        if (name, nargs) in self.specs:
            return ("eff", self.specs[(name, nargs)])
        if name in PURE and len(PURE[name][1]) == nargs:
            return ("pure",) + PURE[name]
        return None

    def todo_call(self, n):
        """(field, type[, argument nodes]) when n is one of the abstract operations of a TodoWorld / QueueWorld function"""
        if n.get("kind") not in ("MemberExpr", "CXXMemberCallExpr", "CXXOperatorCallExpr"):
            return None
        if self.spec_e.world == "QueueWorld":
            return self.queue_call(n)
        if self.spec_e.world != "TodoWorld":
            return None
        try:
            t = TODO_WORLD.get(C.canon(n))
        except Exception:
            return None
        if not t:
            return None
        field, ty, ref = t
        if ref is not None:
            ids = [x.get("referencedDecl", {}).get("id") for x in walk(n)
                   if x.get("kind") == "DeclRefExpr" and x.get("referencedDecl", {}).get("kind") == "VarDecl"]
            if not ids or self.env.get(ids[-1]) != ref + "ref" and not any(self.env.get(i) == ref + "ref" for i in ids):
                return None
        return field, ty

    def queue_call(self, n):
        if n.get("kind") != "CXXMemberCallExpr":
            return None
        ks = kids(n)
        try:
            callee = C.canon(ks[0])
        except Exception:
            return None
        t = QUEUE_WORLD.get(callee)
        if not t:
            return None
        field, ty, pats = t
        args = [a for a in ks[1:] if a["kind"] != "CXXDefaultArgExpr"]
        if pats is None:
            if any(self.is_eff(a) for a in args):
                return None
            args, pats = [], []
        if len(args) != len(pats):
            return None
        passed = []
        for a, pat in zip(args, pats):
            if isinstance(pat, str):
                try:
                    if C.canon(a) != pat:
                        return None
                except Exception:
                    return None
            else:
                passed.append((a, pat))
        # provenance of the names the canonical text mentions
        for x in walk(n):
            if x.get("kind") == "DeclRefExpr":
                rd = x.get("referencedDecl", {})
                nm = rd.get("name")
                if nm in QUEUE_BINDINGS and callee != "q.emplace" and \
                        self.env.get(rd.get("id")) != ("binding", QUEUE_BINDINGS[nm]):
                    return None
                if nm == "q" and self.env.get(rd.get("id")) != "queue":
                    return None
                if nm == "ptr" and self.env.get(rd.get("id")) != "driverptr":
                    return None
                if nm == "e" and self.env.get(rd.get("id")) != "caught":
                    return None
        return field, ty, passed

    def is_eff(self, n):
        for x in walk(n):
            if self.todo_call(x):
                return True
            k = x.get("kind")
            if k == "CXXThrowExpr":
                return True
            if k in ("CallExpr", "CXXMemberCallExpr"):
                t = self.call_target(x)
                if t and t[0] in ("world", "eff"):
                    return True
                if t is None and not self.todo_call(x) and self.helper_def(x):
                    return True
            if k == "CXXMemberCallExpr" and kids(x) and kids(x)[0].get("name") == "Tick":
                return True
        return False

    # ---- helper functions of the same translation unit: inlined --------------------
    STOP = set("""move forward get make_unique make_shared make_exception_ptr duration_cast min max clamp exchange
        rethrow_exception begin end find_if swap to_string memcmp memcpy strlen size data""".split())
    _helper_cache = {}

    def helper_def(self, n):
        """the definition (in this repository's sources) of the function a call refers to, when it is not a known world
        operation / translated function: (FunctionDecl node, file) or None"""
        kind = n.get("kind")
        if kind == "CallExpr":
            try:
                name, dk, ref = self.callee(n)
            except Untranslatable:
                return None
            rtype = ((ref.get("referencedDecl") or {}).get("type") or {}).get("qualType")
            src = re.sub(r"\s+", "", self.source_text(ref) or "")
            if src.startswith("std::") or src.startswith("::") or not src:
                return None
            nargs = len(kids(n)) - 1
        elif kind == "CXXMemberCallExpr":
            me = kids(n)[0]
            if me.get("kind") != "MemberExpr" or not kids(me) or C._strip(kids(me)[0]).get("kind") != "CXXThisExpr":
                return None
            name, rtype, nargs = me.get("name"), None, len(kids(n)) - 1
        else:
            return None
        if not name or name in self.STOP or not re.match(r"^[A-Za-z_]\w*$", name):
            return None
        key = (self.repo, self.spec_e.src, name, nargs, rtype)
        if key in EFn._helper_cache:
            return EFn._helper_cache[key]
        res = None
        try:
            docs = C.ast_docs(self.repo, self.spec_e.src, name)
            found = {}
            for d in docs:
                for x in walk(d):
                    if x.get("kind") in ("FunctionDecl", "CXXMethodDecl") and x.get("name") == name and C.body_of(x) is not None:
                        pv = [c for c in kids(x) if c["kind"] == "ParmVarDecl"]
                        if len(pv) != nargs or any("..." in ((c.get("type") or {}).get("qualType") or "") for c in pv):
                            continue
                        if rtype is not None and (x.get("type") or {}).get("qualType") != rtype:
                            continue
                        f = C._file_of(self.repo, docs, x, self.spec_e.src)
                        if not os.path.abspath(f or "").startswith(os.path.abspath(self.repo) + os.sep):
                            continue
                        found[x.get("id")] = (x, f)
            if len(found) == 1:
                res = list(found.values())[0]
        except Untranslatable:
            res = None
        EFn._helper_cache[key] = res
        return res

    def inline_call(self, n, k):
        """a call of a helper function of the same translation unit: its body, with the arguments bound to its
        parameters, translated in place; `return v` continues with k(v)"""
        fn, ffile = self.helper_def(n)
        args = kids(n)[1:]
        pv = [c for c in kids(fn) if c["kind"] == "ParmVarDecl"]
        if fn.get("id") in self.inlining:
            fail("recursive helper `%s`" % fn.get("name"))
        for x in walk(C.body_of(fn)):
            if x.get("kind") in ("DoStmt", "WhileStmt", "ForStmt", "CXXTryStmt", "LambdaExpr"):
                fail("helper `%s` contains a %s" % (fn.get("name"), x["kind"]))
        benv = {}
        lets = []

        def bind(i):
            if i == len(pv):
                return self.inline(fn, ffile, benv, k, lets)
            p, a = pv[i], args[i]
            a0 = C._strip(a)
            while a0["kind"] in ("ImplicitCastExpr", "CXXConstructExpr", "CXXBindTemporaryExpr") and len(kids(a0)) == 1:
                a0 = C._strip(kids(a0)[0])
            sp = self.bind_special(p, a0)
            if sp is not None:
                benv[p["id"]] = sp
                return bind(i + 1)
            t = ptype(p.get("type"))
            if a0["kind"] == "StringLiteral" or t == DROPT or (a0["kind"] == "UnaryOperator" and a0.get("opcode") == "&"):
                benv[p["id"]] = "drop"
                return bind(i + 1)
            if a0["kind"] == "DeclRefExpr":
                b = self.env.get(a0.get("referencedDecl", {}).get("id"))
                if isinstance(b, (str, tuple)) and b != "uninit":
                    benv[p["id"]] = b                 # a handle travels on as the same handle
                    return bind(i + 1)
                if isinstance(b, (SvVal, ObjVal)):
                    if "&" in ((p.get("type") or {}).get("qualType") or "") and isinstance(b, ObjVal):
                        fail("helper `%s` takes an object by reference" % fn.get("name"))
                    benv[p["id"]] = b
                    return bind(i + 1)
            if t is None:
                benv[p["id"]] = "drop"                # a value of a type outside the subset only travels
                if self.is_eff(a):
                    fail("effectful argument of a type outside the subset")
                return bind(i + 1)

            def got(v):
                if v.ty != t:
                    if t.kind == "int" and v.ty.kind in ("int", "bool"):
                        v = convert(v, t)
                    elif t.kind in ("dur", "tp") and v.ty.kind == t.kind:
                        v = Val(C.Chrono.to_period(v, t), t)
                    else:
                        fail("argument %d of `%s` has type %r, parameter %r" % (i, fn.get("name"), v.ty, t))
                nm = self.fresh(p.get("name") or "arg")
                lets.append("%slet %s : %s := %s\n" % (self.cur_pad, nm, lean_ty(v.ty), as_bool(v) if v.ty == BOOL else v.s))
                benv[p["id"]] = Val(nm, v.ty)
                return bind(i + 1)
            return self.ex(a, got)
        if len(pv) != len(args):
            fail("helper `%s`: %d parameters, %d arguments" % (fn.get("name"), len(pv), len(args)))
        return bind(0)

    inlining = ()

    def bind_special(self, p, a0):
        return None

    def inline(self, fn, ffile, benv, k, lets):
        if self.inline_depth > 4:
            fail("inlining too deep")
        for x in walk(C.body_of(fn)):
            if x.get("kind") in ("BinaryOperator", "CompoundAssignOperator") and x.get("opcode", "=") in ("=", "+=", "-=", "|=", "&="):
                l = C._strip(kids(x)[0])
                if l["kind"] == "DeclRefExpr" and l.get("referencedDecl", {}).get("id") in benv:
                    fail("helper `%s` assigns its parameter" % fn.get("name"))
        saved_env, saved_dt, saved_file, saved_parm = self.env, self.decl_ty, self.file, self.parm
        saved_locked = self.locked
        self.locked = False
        self.env = dict(benv)
        self.decl_ty = dict(self.decl_ty)
        for pid, b in benv.items():
            if isinstance(b, Val):
                self.decl_ty[pid] = b.ty
        self.file = ffile
        self.inline_depth += 1
        self.inlining = tuple(self.inlining) + (fn.get("id"),)
        pre = "".join(lets)
        del lets[:]
        try:
            def done(v):
                ie, idt, ifile, il = self.env, self.decl_ty, self.file, self.locked
                self.env, self.decl_ty, self.file, self.locked = saved_env, saved_dt, saved_file, saved_locked
                try:
                    return k(v)
                finally:
                    self.env, self.decl_ty, self.file, self.locked = ie, idt, ifile, il
            ends = (lambda ind: done(Val("()", VOID))) if "void" == ((fn.get("type") or {}).get("qualType") or "").split("(")[0].strip() \
                else (lambda ind: fail("helper `%s` ends without a return" % fn.get("name")))
            ctx = {"end": ends, "ret_k": done}
            return pre + self.st([C.body_of(fn)], ctx, max(1, len(self.cur_pad) // 2))
        finally:
            self.inline_depth -= 1
            self.inlining = self.inlining[:-1]
            self.env, self.decl_ty, self.file, self.parm = saved_env, saved_dt, saved_file, saved_parm
            self.locked = saved_locked

    # ---- pure expressions (environment aware) -----------------------------
    def lookup(self, n):
        rd = n.get("referencedDecl", {})
        b = self.env.get(rd.get("id"))
        if b is None:
            fail("reference to %s `%s` is outside the subset" % (rd.get("kind"), rd.get("name")))
        if b == "uninit":
            fail("`%s` is read before it is assigned" % rd.get("name"))
        if b in ("drop", "frontref", "taskref", "queue", "caught", "driverptr", "frontelem") or isinstance(b, tuple):
            fail("`%s` (a handle that is not modelled) is used as a value" % rd.get("name"))
        return b

    def expr(self, n):
        k = n["kind"]
        if k == "DeclRefExpr":
            b = self.lookup(n)
            if isinstance(b, (SvVal, ObjVal)):
                fail("`%s` used as a plain value" % n.get("referencedDecl", {}).get("name"))
            return b
        if k == "MemberExpr" and kids(n):
            b0 = C._strip(kids(n)[0])
            while b0["kind"] == "ImplicitCastExpr":
                b0 = C._strip(kids(b0)[0])
            if b0["kind"] == "DeclRefExpr":
                ob = self.env.get(b0.get("referencedDecl", {}).get("id"))
                if isinstance(ob, ObjVal) and n.get("name") in ob.fields:
                    return Val(ob.fields[n["name"]], TPNS)
        if k == "CStyleCastExpr" and n.get("castKind") == "ToVoid":
            return Val("()", VOID)
        if k == "ImplicitCastExpr" and n.get("castKind") in ("LValueToRValue", "NoOp", "BitCast") and \
                (ptype(n.get("type")) == PTR or "void *" in ((n.get("type") or {}).get("qualType") or "")):
            v = self.expr(kids(n)[0])
            if n.get("castKind") == "BitCast" and v.ty != PTR:
                fail("BitCast of a non-pointer")
            return v
        if k == "BinaryOperator" and ptype(n.get("type")) == PTR and n.get("opcode") in ("+",):
            a, b = self.expr(kids(n)[0]), self.expr(kids(n)[1])
            if a.ty == PTR and b.ty.kind == "int":
                return Val("(%s + %s)" % (a.s, b.s), PTR)       # TRUSTED: p + n is n bytes further
            fail("pointer arithmetic outside the subset")
        if k == "CXXMemberCallExpr":
            me = kids(n)[0]
            meth = me.get("name")
            obj = C._strip(kids(me)[0])
            while obj["kind"] == "ImplicitCastExpr":
                obj = C._strip(kids(obj)[0])
            if obj["kind"] == "DeclRefExpr":
                b = self.env.get(obj.get("referencedDecl", {}).get("id"))
                if isinstance(b, SvVal) and len(kids(n)) == 1:
                    if meth == "data":
                        return Val(b.off, PTR)
                    if meth in ("size", "length"):
                        return Val(b.len, U64)
                    if meth == "empty":
                        return Val("(%s = 0)" % b.len, BOOL, True)
                    fail("string_view::%s is outside the subset" % meth)
                if isinstance(b, ObjVal) and meth in OBJ_CLASSES[b.cls][1] and len(kids(n)) == 1:
                    gen, rty, flds = OBJ_CLASSES[b.cls][1][meth]
                    self.use(gen)
                    return Val("(%s)" % " ".join([gen] + [b.fields[f] for f in flds]) if flds else gen, rty)
        if k == "CallExpr":
            t = self.call_target(n)
            if t and t[0] == "pure":
                _, gen, tys, rty = t
                self.use(gen)
                args = []
                for a, ty in zip(kids(n)[1:], tys):
                    v = self.expr(a)
                    if v.ty != ty:
                        fail("argument of %s has type %r, expected %r" % (gen, v.ty, ty))
                    args.append(v.s)
                return Val("(%s %s)" % (gen, " ".join(args)), rty)
            if t:
                fail("effectful call in a pure position")
        if k in ("CXXConstructExpr", "CXXTemporaryObjectExpr") and ptype(n.get("type")) == OPT:
            a = kids(n)
            if len(a) == 1:
                inner = C._strip(a[0])
                if "nullopt" in ((inner.get("type") or {}).get("qualType") or ""):
                    return Val("none", OPT)
                v = self.expr(a[0])
                if v.ty == OPT:
                    return v
                if v.ty.kind == "int":
                    return Val("(some %s)" % v.s, OPT)
            fail("construction of an optional outside the subset")
        if k == "InitListExpr" and len(kids(n)) == 1:
            return self.expr(kids(n)[0])
        return C.Fn.expr(self, n)

    # ---- effectful expressions: continuation passing ---------------------------------
    def ex(self, n, k):
        """Lean text of `n ; k(value)`; `k` maps a pure Val to the Lean text of the continuation"""
        if not self.is_eff(n):
            return k(self.expr(n))
        kind = n["kind"]
        ks = kids(n)
        tc = self.todo_call(n)
        if tc:
            passed = tc[2] if len(tc) > 2 else []
            if sum(1 for a, _ in passed if self.is_eff(a)) > 1:
                fail("more than one effectful argument: the order of evaluation is unspecified")
            vals = []

            def go(i):
                if i == len(passed):
                    r = self.fresh("r")
                    res = Val("()", VOID) if tc[1] == VOID else Val(r, tc[1])
                    return "%sM.bind (%s) fun %s =>\n%s" % (self.cur_pad, " ".join(["W.%s" % tc[0]] + vals),
                                                            "_" if tc[1] == VOID else r, k(res))
                a, want = passed[i]

                def got(v):
                    if v.ty != want:
                        if want.kind == "int" and v.ty.kind == "int":
                            v = convert(v, want)
                        else:
                            fail("argument of %s has type %r, expected %r" % (tc[0], v.ty, want))
                    vals.append(v.s if v.s.startswith("(") or re.match(r"^\w+$", v.s) else "(%s)" % v.s)
                    return go(i + 1)
                return self.ex(a, got)
            return go(0)
        if kind == "CXXOperatorCallExpr" and len(ks) == 3:
            # chrono operator with one effectful operand: bind it, rebuild the operator on pure values
            a1, a2 = ks[1], ks[2]
            if self.is_eff(a1) and self.is_eff(a2):
                fail("two effectful operands of an overloaded operator: the order of evaluation is unspecified")
            idx = 1 if self.is_eff(a1) else 2

            def with_val2(v):
                holder = self.fresh("v")
                n2 = copy.copy(n)
                n2["inner"] = list(ks)
                n2["inner"][idx] = {"kind": "DeclRefExpr", "referencedDecl": {"id": "tmp:" + holder, "kind": "VarDecl", "name": holder},
                                    "type": ks[idx].get("type")}
                self.env["tmp:" + holder] = v
                return k(self.expr(n2))
            return self.ex(ks[idx], with_val2)
        if kind in C.STRIP or kind == "InitListExpr" and len(ks) == 1:
            return self.ex(ks[0], k)
        if kind in ("ImplicitCastExpr", "CXXStaticCastExpr", "CXXFunctionalCastExpr", "CStyleCastExpr"):
            ck = n.get("castKind")
            if ck == "ToVoid":
                return self.ex(ks[0], lambda v: k(Val("()", VOID)))
            if ck in ("LValueToRValue", "NoOp", "ConstructorConversion"):
                return self.ex(ks[0], k)
            if ck == "IntegralCast":
                t = need_type(n)
                return self.ex(ks[0], lambda v: k(convert(v, t)))
            if ck == "IntegralToBoolean":
                return self.ex(ks[0], lambda v: k(Val("(%s ≠ 0)" % v.s, BOOL, True)))
            fail("cast kind %s around an effectful expression" % ck)
        if kind in ("CXXConstructExpr", "CXXTemporaryObjectExpr") and len(ks) == 1:
            t = ptype(n.get("type"))
            if t == OPT:
                return self.ex(ks[0], lambda v: k(v if v.ty == OPT else Val("(some %s)" % v.s, OPT)))
            return self.ex(ks[0], lambda v: k(v) if (t is None or v.ty == t) else fail("constructor conversion of an effectful value"))
        if kind == "UnaryOperator" and n.get("opcode") == "!":
            return self.ex(ks[0], lambda v: k(Val("(¬ %s)" % as_prop(v), BOOL, True)))
        if kind == "BinaryOperator" and n.get("opcode") in ("&&", "||"):
            op = n["opcode"]

            def after_lhs(a):
                # short circuit: the right operand is evaluated only when it decides
                t = self.fresh("c")
                save = self.cur_pad
                self.cur_pad = ""
                rhs = self.ex(ks[1], lambda b: "M.pure (%s)" % as_bool(b)).replace("\n", " ")
                self.cur_pad = save
                if op == "&&":
                    m = "(if %s then %s else M.pure false)" % (as_prop(a), rhs)
                else:
                    m = "(if %s then M.pure true else %s)" % (as_prop(a), rhs)
                return "%sM.bind %s fun %s =>\n%s" % (self.cur_pad, m, t, k(Val(t, BOOL)))
            return self.ex(ks[0], after_lhs)
        if kind == "BinaryOperator" and n.get("opcode") in ("<", ">", "<=", ">=", "==", "!=", "+", "-", "*"):
            if self.is_eff(ks[0]) and self.is_eff(ks[1]):
                fail("two effectful operands of `%s`: the order of evaluation is unspecified" % n["opcode"])
            # bind the effectful operand, then rebuild the operator on pure values
            idx = 0 if self.is_eff(ks[0]) else 1

            def with_val(v):
                holder = self.fresh("v")
                self.env_tmp[holder] = v
                n2 = copy.copy(n)
                n2["inner"] = list(ks)
                n2["inner"][idx] = {"kind": "DeclRefExpr", "referencedDecl": {"id": "tmp:" + holder, "kind": "VarDecl", "name": holder},
                                    "type": ks[idx].get("type")}
                self.env["tmp:" + holder] = v
                return k(self.expr(n2))
            return self.ex(ks[idx], with_val)
        if kind in ("CallExpr", "CXXMemberCallExpr") and self.call_target(n) is None and self.helper_def(n):
            return self.inline_call(n, k)
        if kind == "CallExpr" or (kind == "CXXMemberCallExpr" and self.call_target(n)):
            t = self.call_target(n)
            if t is None:
                name = None
                try:
                    name = self.callee(n)[0]
                except Untranslatable:
                    pass
                fail("call of `%s` is outside the subset" % name)
            args = ks[1:]
            if t[0] == "pure":
                fail("effectful argument of a pure leaf")       # not needed so far
            if t[0] == "world":
                _, field, kinds, rty = t
                head = "W.%s" % field
            else:
                spec = t[1]
                self.use(spec.name)
                kinds = [kd for _, kd in spec.params]
                rty = spec.ret
                head = "%s %s fuel" % (spec.name, self.wbase if spec.world == "World" else "W")
            n_eff = sum(1 for a, kd in zip(args, kinds) if kd != "drop" and self.is_eff(a))
            if n_eff > 1:
                fail("more than one effectful argument: the order of evaluation is unspecified")
            vals = []

            def go(i):
                if i == len(args):
                    r = self.fresh("r")
                    call = " ".join([head] + vals)
                    res = Val("()", VOID) if rty == VOID else Val(r, rty)
                    return "%sM.bind (%s) fun %s =>\n%s" % (self.cur_pad, call, "_" if rty == VOID else r, k(res))
                kd = kinds[i]
                if kd == "drop":
                    return go(i + 1)
                if kd == "obj":
                    a = C._strip(args[i])
                    b = self.env.get(a.get("referencedDecl", {}).get("id")) if a["kind"] == "DeclRefExpr" else None
                    if not isinstance(b, ObjVal):
                        fail("object argument is not a local object")
                    vals.extend(b.fields[f] for f in b.order)
                    return go(i + 1)
                want = PTR if kd == "ptr" else kd

                def got(v):
                    if v.ty != want:
                        if want.kind == "int" and v.ty.kind == "int":
                            v = convert(v, want)
                        else:
                            fail("argument %d has type %r, expected %r" % (i, v.ty, want))
                    vals.append("(%s)" % v.s if not v.s.startswith("(") else v.s)
                    return go(i + 1)
                return self.ex(args[i], got)
            return go(0)
        fail("effectful expression of kind %s is outside the subset" % kind)

    # ---- statements ----------------------------------------------------------------
    def ret_val(self, v):
        rt = self.spec_e.ret
        if rt == BOOL:
            return as_bool(v)
        if rt == VOID:
            return "()"
        if v.ty == rt:
            return v.s
        if rt == OPT and v.ty.kind == "int":
            return "(some %s)" % v.s
        if rt.kind == "int" and v.ty.kind in ("int", "bool"):
            return convert(v, rt).s
        fail("returns %r from a function returning %r" % (v.ty, rt))

    def throw(self, n, pad):
        e = C._strip(kids(n)[0]) if kids(n) else fail("rethrow")
        while e["kind"] in ("CXXFunctionalCastExpr", "ImplicitCastExpr") or e["kind"] in C.STRIP:
            e = kids(e)[0]
        if e["kind"] not in ("CXXConstructExpr", "CXXTemporaryObjectExpr"):
            fail("throw of a %s" % e["kind"])
        cls = ((e.get("type") or {}).get("qualType") or "")
        if cls not in EXN_CLASSES:
            fail("throw of `%s`" % cls)
        lean_cls = EXN_CLASSES[cls]
        args = kids(e)
        if lean_cls == "system_error":
            if len(args) != 2:
                fail("std::system_error with %d arguments" % len(args))
            return self.ex(args[0], lambda v: pad + "M.throw ⟨.system_error, %s⟩" % v.s if v.ty == ERRC else fail("error code"))
        return pad + "M.throw ⟨.%s, 0⟩" % lean_cls

    def bind_local(self, d, v):
        """`let` for a new version of local d holding pure value v; returns (text, binding)"""
        name = self.fresh(d.get("name"))
        val = as_bool(v) if v.ty == BOOL else v.s
        return "let %s : %s := %s\n" % (name, lean_ty(v.ty), val), Val(name, v.ty)

    def st(self, ss, ctx, ind):
        pad = "  " * ind
        self.cur_pad = pad
        if not ss:
            return ctx["end"](ind)
        s, rest = ss[0], ss[1:]
        k = s["kind"]
        nxt = lambda: self.st(rest, ctx, ind)
        if k == "CompoundStmt" and self.spec_e.world == "QueueWorld" and any(
                c["kind"] == "DeclStmt" and kids(c) and "lock_guard" in ((kids(c)[0].get("type") or {}).get("qualType") or "")
                for c in kids(s)):
            # a block with its own lock guard: the lock is released where the block ends (and at a `return` inside)
            saved_locked = self.locked
            self.locked = False

            def end_block(ind2):
                held = self.locked
                self.locked = saved_locked
                try:
                    tail = self.st(rest, ctx, ind2)
                finally:
                    self.locked = held
                return ("%sM.bind (W.unlock) fun _ =>\n" % ("  " * ind2) if held else "") + tail
            inner = dict(ctx)
            inner["end"] = end_block
            try:
                return self.st(kids(s), inner, ind)
            finally:
                self.locked = saved_locked
        if k == "CompoundStmt":
            return self.st(kids(s) + rest, ctx, ind)
        if k == "NullStmt" or C._is_assert(s) or C._is_noop_call(s):
            return nxt()
        if k in C.STRIP and C._strip(s)["kind"] == "CXXThrowExpr" or k == "CXXThrowExpr":
            return self.throw(C._strip(s), pad)
        if k == "ReturnStmt" and ctx.get("ret_k"):
            # inside an inlined helper: `return v` continues the caller with v
            def leave(v):
                # a lock_guard of the helper's own scope is released when it returns (after the value is computed)
                if not self.locked:
                    return ctx["ret_k"](v)
                self.locked = False
                try:
                    return "%sM.bind (W.unlock) fun _ =>\n%s" % (pad, ctx["ret_k"](v))
                finally:
                    self.locked = True
            if not kids(s) or self.dropped_value(kids(s)[0]):
                return leave(Val("()", VOID))
            return self.ex(kids(s)[0], leave)
        if k == "ReturnStmt":
            wrap = "(some %s)" if ctx.get("in_try") else "(%s)"
            unl = ("%sM.bind (W.unlock) fun _ =>\n" % pad) if self.locked else ""       # ~lock_guard after the value is computed
            def dropped_local(e):
                e = C._strip(e)
                while e["kind"] in ("ImplicitCastExpr", "CXXConstructExpr") and len(kids(e)) == 1:
                    e = C._strip(kids(e)[0])
                return e["kind"] == "DeclRefExpr" and self.env.get(e.get("referencedDecl", {}).get("id")) == "drop"
            if not kids(s) or (self.spec_e.ret == VOID and dropped_local(kids(s)[0])):
                return unl + pad + "M.pure " + (wrap % "()")
            return self.ex(kids(s)[0], lambda v: unl + pad + "M.pure " + (wrap % self.ret_val(v)))
        if k == "CXXTryStmt":
            return self.try_(s, rest, ctx, ind)
        if k == "BreakStmt":
            return ctx["brk"](ind) if ctx.get("brk") else fail("break outside a loop")
        if k == "ContinueStmt":
            return ctx["cont"](ind) if ctx.get("cont") else fail("continue outside a loop")
        if k == "DeclStmt":
            ds = kids(s)
            if len(ds) == 1 and ds[0]["kind"] == "DecompositionDecl" and self.spec_e.world == "QueueWorld":
                dk = kids(ds[0])
                if not dk or C.canon(dk[0]) != "q.front()" or "&" not in ((ds[0].get("type") or {}).get("qualType") or "") \
                        or any(self.env.get(x.get("referencedDecl", {}).get("id")) != "queue" for x in walk(dk[0])
                               if x.get("kind") == "DeclRefExpr" and x.get("referencedDecl", {}).get("name") == "q"):
                    fail("structured binding is not `auto &&[..] = q.front()`")
                for i, b in enumerate(x for x in dk[1:] if x["kind"] == "BindingDecl"):
                    self.env[b["id"]] = ("binding", i)     # a reference to field i of the front element: nothing happens
                return nxt()
            if len(ds) != 1 or ds[0]["kind"] != "VarDecl":
                fail("declaration statement is not one variable")
            return self.decl(ds[0], nxt, pad)
        if k == "IfStmt":
            if s.get("hasInit"):
                fail("if with init-statement")
            parts = kids(s)
            if s.get("hasVar") and self.spec_e.world == "QueueWorld" and kids(kids(parts[0])[0]) and \
                    C.canon(kids(kids(parts[0])[0])[-1]) == "driver.lock()":
                dv = kids(parts[0])[0]
                self.env[dv["id"]] = "driverptr"
                bname = self.fresh("alive")
                fake = {"kind": "DeclRefExpr", "referencedDecl": {"id": "tmp:" + bname, "kind": "VarDecl", "name": bname},
                        "type": {"qualType": "bool"}}
                self.env["tmp:" + bname] = Val(bname, BOOL)
                return "%sM.bind (W.driverLock) fun %s =>\n%s" % (pad, bname, self.if_(fake, parts[2], parts[3:], rest, ctx, ind))
            if s.get("hasVar"):
                dv = kids(parts[0])[0]
                return self.decl(dv, lambda: self.if_(parts[1], parts[2], parts[3:], rest, ctx, ind), pad)
            return self.if_(parts[0], parts[1], parts[2:], rest, ctx, ind)
        if k in ("DoStmt", "ForStmt", "WhileStmt"):
            return self.loop(s, rest, ctx, ind)
        # expression statements
        e = C._strip(s)
        if e["kind"] == "BinaryOperator" and e.get("opcode") == "=" or e["kind"] == "CompoundAssignOperator" \
                or e["kind"] == "CXXOperatorCallExpr" and self.callee(e)[0] == "operator=":
            return self.assign(e, nxt, pad)
        if e["kind"] == "CXXMemberCallExpr":
            me = kids(e)[0]
            obj = C._strip(kids(me)[0])
            while obj["kind"] == "ImplicitCastExpr":
                obj = C._strip(kids(obj)[0])
            did = obj.get("referencedDecl", {}).get("id") if obj["kind"] == "DeclRefExpr" else None
            b = self.env.get(did)
            if isinstance(b, SvVal) and me.get("name") == "remove_prefix" and len(kids(e)) == 2:
                def upd(v):
                    if v.ty.kind != "int":
                        fail("remove_prefix argument")
                    o = self.fresh(b.off)
                    self.env[did] = SvVal(o, b.end)
                    # TRUSTED: remove_prefix(k), k <= size(): the view starts k bytes later and ends where it ended
                    return "%slet %s : Int := %s + %s\n%s" % (pad, o, b.off, v.s, nxt())
                return self.ex(kids(e)[1], upd)
            if isinstance(b, ObjVal) and me.get("name") == "Tick" and len(kids(e)) == 1:
                self.use("Clocked_Tick")
                nn = self.fresh(b.fields["now"])
                nb = ObjVal(b.fields, b.cls)
                nb.fields["now"] = nn
                self.env[did] = nb
                return "%sM.bind (Clocked_Tick %s) fun %s =>\n%s" % (pad, self.wbase, nn, nxt())
        if self.is_eff(e) or e["kind"] == "CStyleCastExpr":
            return self.ex(e, lambda v: nxt())
        fail("statement kind %s is outside the subset" % k)

    def dropped_value(self, e):
        """an expression that only names a handle which is not modelled (a `std::future`, a `std::promise`, ...)"""
        e = C._strip(e)
        while e["kind"] in ("ImplicitCastExpr", "CXXConstructExpr", "CXXBindTemporaryExpr", "CallExpr") and \
                (len(kids(e)) == 1 or (e["kind"] == "CallExpr" and len(kids(e)) == 2 and C.canon(kids(e)[0]) == "move")):
            e = C._strip(kids(e)[-1])
        return e["kind"] == "DeclRefExpr" and self.env.get(e.get("referencedDecl", {}).get("id")) == "drop"

    def try_(self, s, rest, ctx, ind):
        """`try B catch(X const &e) H` rest: B and H yield `some v` when they `return v` and `none` when they fall
        through; the statements after the try are NOT inside it.  Neither B nor H may assign a local of the function."""
        pad = "  " * ind
        parts = kids(s)
        if len(parts) != 2 or parts[1]["kind"] != "CXXCatchStmt" or ctx.get("in_try") or ctx.get("brk") or ctx.get("cont"):
            fail("try statement outside the subset (one handler, not nested, not inside a loop)")
        body, handler = parts
        hk = kids(handler)
        if len(hk) != 2 or hk[0]["kind"] != "VarDecl":
            fail("catch(...) / handler shape")
        cls = re.sub(r"^const\s+", "", re.sub(r"\s*&$", "", ((hk[0].get("type") or {}).get("qualType") or ""))).strip()
        if cls not in CATCHABLE:
            fail("catch of `%s`" % cls)
        if self.mutated(body) or self.mutated(hk[1]):
            fail("the try block or its handler assigns a local")
        inner = {"end": (lambda i2: "  " * i2 + "M.pure none"), "in_try": True}
        saved = dict(self.env)
        btxt = self.st([body], inner, ind + 2)
        self.env = dict(saved)
        self.env[hk[0]["id"]] = "caught"
        htxt = self.st([hk[1]], inner, ind + 2)
        self.env = saved
        o = self.fresh("o")
        v = self.fresh("v")
        after = self.st(rest, ctx, ind + 1)
        wrap = "(some %s)" if ctx.get("in_try") else "%s"
        return ("%sM.bind (M.tryCatch .%s (\n%s)\n%s  (fun _ =>\n%s)) fun %s =>\n%smatch %s with\n%s| some %s => M.pure %s\n%s| none =>\n%s"
                % (pad, CATCHABLE[cls], btxt, pad, htxt, o, pad, o, pad, v, wrap % v, pad, after))

    def if_(self, cond, then, els, rest, ctx, ind):
        pad = "  " * ind

        def branches(c):
            saved = dict(self.env)
            th = self.st([then] + rest, ctx, ind + 1)
            self.env = dict(saved)
            el = self.st(list(els) + rest, ctx, ind + 1)
            self.env = saved
            return "%sif %s then\n%s\n%selse\n%s" % (pad, as_prop(c), th, pad, el)
        return self.ex(cond, branches)

    def decl(self, d, nxt, pad):
        t = ptype(d.get("type"))
        inits = [c for c in kids(d) if not c["kind"].endswith("Attr")]      # [[maybe_unused]] and the like
        did = d["id"]
        if self.spec_e.world == "QueueWorld":
            ty = re.sub(r"^const\s+", "", ((d.get("type") or {}).get("qualType") or ""))
            txt = C.canon(inits[-1]) if inits else ""
            if ty == "std::lock_guard<std::mutex>" and txt == "lock_guard(sendQMtx)":
                if self.locked or self.scope_depth != 0:
                    fail("lock_guard that is not the function-level guard of sendQMtx")
                self.locked = True            # every later `return` unlocks; a thrown exception is not followed
                self.env[did] = "drop"
                return "%sM.bind (W.lock) fun _ =>\n%s" % (pad, nxt())
            if txt == "get(sendQ)" and "&" in ty:
                self.env[did] = "queue"
                return nxt()
            # the front element and its fields named one by one instead of by a structured binding:
            # `Elem &front = q.front(); T &x = std::get<N>(front);`
            if "&" in ty and txt == "q.front()" and all(
                    self.env.get(x.get("referencedDecl", {}).get("id")) == "queue" for x in walk(inits[-1])
                    if x.get("kind") == "DeclRefExpr" and x.get("referencedDecl", {}).get("name") == "q"):
                self.env[did] = "frontelem"
                return nxt()
            if "&" in ty and re.match(r"^get\(\w+\)$", txt):
                refs = [x.get("referencedDecl", {}).get("id") for x in walk(inits[-1]) if x.get("kind") == "DeclRefExpr"
                        and x.get("referencedDecl", {}).get("kind") == "VarDecl"]
                m = re.search(r"std::get<(\d+)>\(", re.sub(r"\s+", "", self.source_text(inits[-1]) or ""))
                if len(refs) == 1 and self.env.get(refs[0]) == "frontelem" and m:
                    self.env[did] = ("binding", int(m.group(1)))
                    return nxt()
        if self.spec_e.world == "TodoWorld" and inits:
            txt = C.canon(inits[-1])
            if txt == "todos.front()" and "&" in ((d.get("type") or {}).get("qualType") or ""):
                self.env[did] = "frontref"          # a reference to the first element: nothing happens yet
                return nxt()
            if txt.startswith("move(") and txt.endswith(")"):
                src = [x.get("referencedDecl", {}).get("id") for x in walk(inits[-1]) if x.get("kind") == "DeclRefExpr"
                       and x.get("referencedDecl", {}).get("kind") == "VarDecl"]
                if len(src) == 1 and self.env.get(src[0]) == "frontref":
                    self.env[did] = "taskref"        # the shared_ptr moved out of the front slot
                    return nxt()
        if t == DROPT:
            if inits and self.is_eff(inits[-1]):
                fail("effectful initialiser of a dropped local")
            self.env[did] = "drop"
            return nxt()
        if not inits:
            if t is None or t.kind not in ("int", "bool", "dur", "tp"):
                fail("uninitialised local `%s` of a type outside the subset" % d.get("name"))
            self.env[did] = "uninit"
            self.decl_ty[did] = t
            return nxt()
        init = inits[-1]
        if t == OBJ:
            e = C._strip(init)
            while e["kind"] in ("CXXFunctionalCastExpr",):
                e = C._strip(kids(e)[0])
            if e["kind"] not in ("CXXConstructExpr", "CXXTemporaryObjectExpr") or len(kids(e)) != 1:
                fail("construction of DeadlineLimited outside the subset")
            self.use("Clocked_ctor_now")
            self.use("DeadlineLimited_deadline")

            def built(v):
                if v.ty != MS:
                    fail("DeadlineLimited(timeout): timeout of type %r" % v.ty)
                nn, dd = self.fresh(d.get("name") + "_now"), self.fresh(d.get("name") + "_deadline")
                self.env[did] = ObjVal({"now": nn, "deadline": dd})
                return "%sM.bind (Clocked_ctor_now %s) fun %s =>\n%slet %s : Int := DeadlineLimited_deadline %s %s\n%s" % (
                    pad, self.wbase, nn, pad, dd, nn, v.s, nxt())
            return self.ex(kids(e)[0], built)
        if t == SV:
            e = C._strip(init)
            while e["kind"] in ("CXXFunctionalCastExpr", "ImplicitCastExpr") and len(kids(e)) == 1 and e["kind"] != "CXXConstructExpr":
                e = C._strip(kids(e)[0])
            if e["kind"] in ("CXXConstructExpr", "CXXTemporaryObjectExpr") and len(kids(e)) == 1:
                e = C._strip(kids(e)[0])        # copy of a temporary
                while e["kind"] in ("CXXFunctionalCastExpr", "ImplicitCastExpr"):
                    e = C._strip(kids(e)[0])
            if e["kind"] not in ("CXXConstructExpr", "CXXTemporaryObjectExpr") or len(kids(e)) != 2:
                fail("construction of a string_view outside the subset")
            p, ln = self.expr(kids(e)[0]), self.expr(kids(e)[1])
            if p.ty != PTR or ln.ty.kind != "int":
                fail("string_view(%r, %r)" % (p.ty, ln.ty))
            o = self.fresh(d.get("name") + "_off")
            self.env[did] = SvVal(o, "(%s + %s)" % (p.s, ln.s))
            return "%slet %s : Int := %s\n%s" % (pad, o, p.s, nxt())

        def bound(v):
            if t is not None and t != v.ty:
                if t.kind == "int" and v.ty.kind in ("int", "bool"):
                    v = convert(v, t)
                else:
                    fail("initialiser of `%s` has type %r, variable %r" % (d.get("name"), v.ty, t))
            txt, b = self.bind_local(d, v)
            self.env[did] = b
            self.decl_ty[did] = v.ty
            return pad + txt + nxt()
        return self.ex(init, bound)

    def assign(self, e, nxt, pad):
        ks = kids(e)
        if e["kind"] == "CXXOperatorCallExpr":
            ks = ks[1:]
        lhs = C._strip(ks[0])
        if lhs["kind"] != "DeclRefExpr":
            fail("assignment to something that is not a local")
        did = lhs.get("referencedDecl", {}).get("id")
        if did not in self.env or isinstance(self.env[did], (SvVal, ObjVal)) or self.env[did] == "drop":
            fail("assignment to `%s` is outside the subset" % lhs.get("referencedDecl", {}).get("name"))
        ty = self.decl_ty.get(did)
        op = e.get("opcode", "=")

        def got(v):
            if op in ("+=", "-="):
                cur = self.env[did]
                if cur == "uninit":
                    fail("compound assignment to an uninitialised local")
                if cur.ty.kind != "int" or v.ty.kind != "int":
                    fail("compound assignment on %r" % cur.ty)
                v2 = convert(v, cur.ty)
                sx = "(%s %s %s)" % (cur.s, op[0], v2.s)
                v = Val(sx if cur.ty.signed else C.wrap_u(sx, cur.ty.bits), cur.ty)
            elif op != "=":
                fail("assignment operator %s" % op)
            if ty is not None and v.ty != ty:
                if ty.kind == "int" and v.ty.kind in ("int", "bool"):
                    v = convert(v, ty)
                elif ty.kind in ("dur", "tp") and v.ty.kind == ty.kind:
                    v = Val(C.Chrono.to_period(v, ty), ty)
                else:
                    fail("assignment of %r to a variable of type %r" % (v.ty, ty))
            txt, b = self.bind_local({"name": lhs["referencedDecl"].get("name")}, v)
            self.env[did] = b
            return pad + txt + nxt()
        return self.ex(ks[1], got)

    # ---- loops -----------------------------------------------------------------------
    def mutated(self, s):
        """ids of the locals (declared outside s) that s may change"""
        out = []

        def add(x):
            x = C._strip(x)
            while x["kind"] == "ImplicitCastExpr":
                x = C._strip(kids(x)[0])
            if x["kind"] == "DeclRefExpr":
                i = x.get("referencedDecl", {}).get("id")
                if i in self.env and i not in out:
                    out.append(i)
        for x in walk(s):
            k = x.get("kind")
            if k == "BinaryOperator" and x.get("opcode") == "=" or k == "CompoundAssignOperator":
                add(kids(x)[0])
            elif k == "CXXOperatorCallExpr":
                try:
                    if self.callee(x)[0] in ("operator=", "operator+=", "operator-="):
                        add(kids(x)[1])
                except Untranslatable:
                    pass
            elif k == "UnaryOperator" and x.get("opcode") in ("++", "--"):
                add(kids(x)[0])
            elif k == "CXXMemberCallExpr" and kids(x) and kids(x)[0].get("name") in ("remove_prefix", "remove_suffix", "Tick"):
                add(kids(kids(x)[0])[0])
        return out

    def comps(self, b):
        """lean variable names a binding consists of"""
        if isinstance(b, SvVal):
            return [b.off]
        if isinstance(b, ObjVal):
            return [b.fields[f] for f in b.order]
        if isinstance(b, Val):
            return [b.s]
        return []

    def loop(self, s, rest, ctx, ind):
        if ctx.get("ret_k"):
            fail("a loop inside an inlined helper function")
        pad = "  " * ind
        k = s["kind"]
        parts = kids(s)
        if k == "DoStmt":
            body, cond = parts[0], parts[1]
        elif k == "WhileStmt":
            if len(parts) != 2:
                fail("while with a condition variable")
            cond, body = parts[0], parts[1]
        else:
            raw = [c for c in (s.get("inner") or [])]
            if len(raw) != 5 or any(isinstance(c, dict) and c.get("kind") for c in raw[:4]):
                fail("only `for(;;)` is inside the subset")
            body, cond = parts[-1], None
        self.nloops += 1
        lname = "%s_loop%d" % (self.spec_e.name, self.nloops)
        mut = [i for i in self.mutated(s)]
        outer_env = dict(self.env)
        # mutated locals that hold a value at loop entry are loop arguments (in declaration order)
        margs = [i for i in outer_env if i in mut and outer_env[i] != "uninit" and outer_env[i] != "drop"]
        # inside the definition: fresh argument names for the mutated locals
        self.env = dict(outer_env)
        argnames = []
        for i in margs:
            b = outer_env[i]
            if isinstance(b, SvVal):
                nb = SvVal(self.fresh(b.off), b.end)
            elif isinstance(b, ObjVal):
                # only `now` can change (Tick); `deadline` stays what it is
                nb = ObjVal(b.fields, b.cls)
                nb.fields["now"] = self.fresh(b.fields["now"])
            else:
                nb = Val(self.fresh(b.s), b.ty)
            self.env[i] = nb
            argnames.append(nb)
        loop_env = dict(self.env)

        def cur_args():
            out = []
            for i in margs:
                b = self.env[i]
                if isinstance(b, ObjVal):
                    out.append(b.fields["now"])
                else:
                    out.extend(self.comps(b))
            return out

        def formal_args():
            out = []
            for b in argnames:
                if isinstance(b, ObjVal):
                    out.append(b.fields["now"])
                else:
                    out.extend(self.comps(b))
            return out

        FIXED = "\0FIXED\0"

        def again(ind2):
            return "  " * ind2 + " ".join([lname, "W", "fuel", FIXED, "n"] + cur_args())

        def leave(ind2):
            return self.st(rest, ctx, ind2)

        def check(ind2):
            saved = dict(self.env)
            r = self.ex(cond, lambda c: "%sif %s then\n%s\n%selse\n%s" % ("  " * ind2, as_prop(c), again(ind2 + 1), "  " * ind2, leave(ind2 + 1)))
            self.env = saved
            return r
        inner = {"ret": ctx.get("ret")}
        if k == "DoStmt":
            inner.update(end=check, brk=leave, cont=check)
            text = self.st([body], inner, 2)
        elif k == "ForStmt":
            inner.update(end=again, brk=leave, cont=again)
            text = self.st([body], inner, 2)
        else:
            inner.update(end=again, brk=leave, cont=again)

            def whole(c):
                saved = dict(self.env)
                th = self.st([body], inner, 3)
                self.env = dict(saved)
                el = leave(3)
                self.env = saved
                return "    if %s then\n%s\n    else\n%s" % (as_prop(c), th, el)
            text = self.ex(cond, whole)
        # fixed arguments, canonical: ALL parameters of the function and ALL locals visible at the loop head that the
        # loop does not change, in declaration order, whether the loop mentions them or not (so that restructuring
        # the loop does not change its signature)
        fixed = []
        formals = set(formal_args())
        for nm, _ty in self.params_lean:
            if nm not in formals:
                fixed.append((nm, _ty))
        for i, b in outer_env.items():
            if isinstance(b, str) or str(i).startswith("tmp:"):
                continue
            for nm in self.comps(b):
                if nm in formals or any(nm == f for f, _ in fixed):
                    continue
                if i in margs and not isinstance(b, ObjVal):
                    continue
                if isinstance(b, ObjVal) and i in margs and nm == b.fields["now"]:
                    continue
                if not re.match(r"^[A-Za-z_][A-Za-z0-9_]*$", nm):
                    continue
                fixed.append((nm, "Bool" if isinstance(b, Val) and b.ty == BOOL else "Int"))
        fixed_call = " ".join(nm for nm, _ in fixed)
        text = text.replace(FIXED + " ", (fixed_call + " ") if fixed_call else "").replace(FIXED, fixed_call)
        fa = formal_args()
        sig = "".join(" (%s : %s)" % (nm, ty) for nm, ty in fixed)
        arrow = " → ".join(["Nat"] + ["Int"] * len(fa) + ["M ω %s" % lean_ty(self.spec_e.ret)])
        zero = "  | " + ", ".join(["0"] + ["_"] * len(fa)) + " => M.halt"
        succ = "  | " + ", ".join(["n + 1"] + fa) + " =>"
        self.loops.append("/-- loop %d of `%s` (%s); fuel `n` = remaining iterations -/\ndef %s {ω : Type} (W : %s ω) (fuel : Nat)%s : %s\n%s\n%s\n%s\n" % (
            self.nloops, self.spec_e.cname, {"DoStmt": "do-while", "ForStmt": "for(;;)", "WhileStmt": "while"}[k],
            lname, self.spec_e.world, sig, arrow, zero, succ, text))
        # the call at the loop statement
        self.env = outer_env
        call = " ".join([lname, "W", "fuel"] + ([fixed_call] if fixed_call else []) + ["(loopFuel fuel)"] + cur_args())
        self.env = outer_env
        return pad + call

    # ---- whole function ------------------------------------------------------------------
    def run(self, fn):
        self.env = {}
        self.cur_pad = "  "
        self.scope_depth = 0
        self.env_tmp = {}
        self.decl_ty = {}
        self.bind_params(fn)
        pv = [c for c in kids(fn) if c["kind"] == "ParmVarDecl"]
        if len(pv) != len(self.spec_e.params):
            fail("expected %d parameters, found %d" % (len(self.spec_e.params), len(pv)))
        for p, (cname, kind) in zip(pv, self.spec_e.params):
            if p.get("name") != cname:
                fail("parameter `%s` where `%s` was expected" % (p.get("name"), cname))
            t = ptype(p.get("type"))
            if kind == "drop":
                self.env[p["id"]] = "drop"
            elif kind == "queue":
                self.env[p["id"]] = "queue"
            elif kind == "pollbits":
                nm = self.fresh("pollOut")             # only the POLLOUT bit of a `short &events` parameter
                self.env[p["id"]] = ("pollbits", nm)
                self.params_lean.append((nm, "Bool"))
            elif kind == "ptr":
                if t != PTR:
                    fail("parameter `%s` is not a char pointer" % cname)
                nm = self.fresh(cname)                   # an offset into the caller's buffer (0 at the outermost call)
                self.env[p["id"]] = Val(nm, PTR)
                self.params_lean.append((nm, "Int"))
            elif kind == "obj":
                cls = obj_class(p.get("type"))
                if t != OBJ or cls is None or (self.spec_e.objcls and cls != self.spec_e.objcls):
                    fail("parameter `%s` is not a %s" % (cname, self.spec_e.objcls or "deadline object"))
                f = {fl: self.fresh(cname + "_" + fl) for fl in OBJ_CLASSES[cls][0]}
                self.env[p["id"]] = ObjVal(f, cls)
                self.params_lean += [(f[fl], "Int") for fl in OBJ_CLASSES[cls][0]]
            else:
                if t != kind:
                    fail("parameter `%s` has type %r, expected %r" % (cname, t, kind))
                nm = self.fresh(cname)
                self.env[p["id"]] = Val(nm, kind)          # unsigned parameters are `Int`s too (>= 0 in C++)
                self.params_lean.append((nm, lean_ty(kind)))
                self.decl_ty[p["id"]] = kind
        ctx = {"end": (lambda ind: "  " * ind + "M.pure ()") if self.spec_e.ret == VOID else
               (lambda ind: fail("control reaches the end of the function without a return"))}
        return self.st([C.body_of(fn)], ctx, 1)


def comps_nat_fix(text):
    return text


PRELUDE_DEFS = [
    # (generated name, source, filter, builder): the two effectful members of Clocked, read from the AST
    ("Clocked_ctor_now", "wait.cpp", "wait_detail::Clocked"),
    ("Clocked_Tick", "wait.cpp", "wait_detail::Clocked"),
]


def clocked_members(repo, docs, which):
    """`Clocked() : now(Clock::now()) {}` and `void Tick() { now = Clock::now(); }`: both must be exactly that"""
    rec = None
    for d in docs:
        for x in walk(d):
            if x.get("kind") == "CXXRecordDecl" and x.get("name") == "Clocked" and any(c.get("kind") == "FieldDecl" for c in kids(x)):
                rec = x
    if rec is None:
        fail("no definition of wait_detail::Clocked")
    fields = [c.get("name") for c in kids(rec) if c.get("kind") == "FieldDecl"]
    if fields != ["now"]:
        fail("Clocked has the fields %s" % fields)
    t = EFn(repo, Spec(which, "wait.cpp", "", which, [], TPNS), [], set())
    t.file = C._file_of(repo, docs, rec, "wait.cpp")
    t.env, t.env_tmp, t.decl_ty = {}, {}, {}
    if which == "Clocked_ctor_now":
        ctors = [c for c in kids(rec) if c.get("kind") == "CXXConstructorDecl" and not c.get("isImplicit") and C.body_of(c) is not None]
        if len(ctors) != 1 or [c for c in kids(ctors[0]) if c["kind"] == "ParmVarDecl"]:
            fail("Clocked does not have exactly one (default) constructor")
        inits = [c for c in kids(ctors[0]) if c["kind"] == "CXXCtorInitializer"]
        if len(inits) != 1 or (inits[0].get("anyInit") or {}).get("name") != "now" or kids(C.body_of(ctors[0])):
            fail("Clocked() is not `: now(...) {}`")
        return t.ex(kids(inits[0])[0], lambda v: "  M.pure %s" % v.s if v.ty == TPNS else fail("type of now"))
    ms = [c for c in kids(rec) if c.get("kind") == "CXXMethodDecl" and c.get("name") == "Tick" and C.body_of(c) is not None]
    if len(ms) != 1:
        fail("Clocked::Tick")
    ss = kids(C.body_of(ms[0]))
    e = C._strip(ss[0]) if len(ss) == 1 else fail("Clocked::Tick has %d statements" % len(ss))
    if e["kind"] == "CXXOperatorCallExpr" and t.callee(e)[0] == "operator=":
        lhs, rhs = kids(e)[1], kids(e)[2]
    elif e["kind"] == "BinaryOperator" and e.get("opcode") == "=":
        lhs, rhs = kids(e)[0], kids(e)[1]
    else:
        fail("Clocked::Tick is not an assignment")
    lhs = C._strip(lhs)
    if lhs["kind"] != "MemberExpr" or lhs.get("name") != "now" or C._strip(kids(lhs)[0])["kind"] != "CXXThisExpr":
        fail("Clocked::Tick does not assign `now`")
    return t.ex(rhs, lambda v: "  M.pure %s" % v.s if v.ty == TPNS else fail("type of now"))


def find_eff_function(docs, spec):
    found = {}
    if spec.targ:
        for d in docs:
            for x in walk(d):
                if x.get("kind") == "FunctionTemplateDecl" and x.get("name") == spec.cname:
                    for c in kids(x):
                        if c["kind"] in ("CXXMethodDecl", "FunctionDecl") and C.body_of(c) is not None:
                            targs = [((y.get("type") or {}).get("qualType") or "").split("::")[-1] for y in kids(c)
                                     if y["kind"] == "TemplateArgument"]
                            if targs == [spec.targ]:
                                found[c.get("id")] = c
        if len(found) != 1:
            fail("expected exactly one instantiation %s<%s>, found %d" % (spec.cname, spec.targ, len(found)))
        return list(found.values())[0]
    for d in docs:
        for x in walk(d):
            if x.get("kind") in ("FunctionDecl", "CXXMethodDecl") and x.get("name") == spec.cname and C.body_of(x) is not None:
                pv = [c for c in kids(x) if c["kind"] == "ParmVarDecl"]
                if any("..." in ((c.get("type") or {}).get("qualType") or "") for c in pv):
                    continue                 # the template pattern with a parameter pack, not an instantiation
                if len(pv) == spec.nparams:
                    found[x.get("id")] = x
    if len(found) != 1:
        fail("expected exactly one definition of %s with %d parameters, found %d" % (spec.cname, spec.nparams, len(found)))
    return list(found.values())[0]


def translate(repo, available, ast_of):
    """[(name, ok, text or reason)]; `available` = names of the stage-1 definitions that exist;
    `ast_of(src, flt)` -> (docs, error)"""
    out = []
    avail = set(available)
    EFn._helper_cache.clear()        # the tree may have changed since the last call in this process
    for name, src, flt in PRELUDE_DEFS:
        docs, err = ast_of(src, flt)
        try:
            if docs is None:
                fail(err)
            body = clocked_members(repo, docs, name)
            what = "`wait_detail::Clocked::Clocked()`: the value `now` is initialised with" if name == "Clocked_ctor_now" \
                else "`wait_detail::Clocked::Tick()`: the new value of `now`"
            out.append((name, True, "/-- src/wait.h: %s -/\ndef %s {ω : Type} (W : World ω) : M ω Int :=\n%s\n" % (what, name, body)))
            avail.add(name)
        except Untranslatable as e:
            out.append((name, False, str(e)))
        except (KeyError, IndexError, TypeError, ValueError, AttributeError) as e:
            out.append((name, False, "unexpected AST shape (%s: %s)" % (type(e).__name__, e)))
    specs = EFF_SPECS()
    for spec in specs:
        docs, err = ast_of(spec.src, spec.flt)
        try:
            if docs is None:
                fail(err)
            for nd in spec.needs:
                if nd not in avail:
                    fail("needs `%s`, which is untranslatable" % nd)
            fn = find_eff_function(docs, spec)
            t = EFn(repo, spec, specs, avail)
            t.file = None
            t.bind_params(fn)
            t.file = C._file_of(repo, docs, fn, spec.src)
            body = t.run(fn)
            sig = "".join(" (%s : %s)" % p for p in t.params_lean)
            text = "".join(l + "\n" for l in t.loops)
            text += "/-- src/%s: `%s%s` -/\ndef %s {ω : Type} (W : %s ω) (fuel : Nat)%s : M ω %s :=\n%s\n" % (
                spec.src, spec.cname, ("<%s>" % spec.targ) if spec.targ else "", spec.name, spec.world, sig, lean_ty(spec.ret), body)
            out.append((spec.name, True, text))
            avail.add(spec.name)
        except Untranslatable as e:
            out.append((spec.name, False, str(e)))
        except (KeyError, IndexError, TypeError, ValueError, AttributeError) as e:
            out.append((spec.name, False, "unexpected AST shape (%s: %s)" % (type(e).__name__, e)))
    return out


def jobs():
    return sorted({(s.src, s.flt) for s in EFF_SPECS()} | {(src, flt) for _, src, flt in PRELUDE_DEFS})

import sys, os
sys.path.insert(0, os.path.dirname(os.path.abspath(__file__)))
import vlib
name, flavour = sys.argv[1], sys.argv[2]
srcs = sys.argv[3].split(",")
exe = vlib.build_harness(name, flavour, srcs)
print(exe)

"""Source-derived tie between /repo and the Lean model (DESIGN.md §0.7).

On every run the small pure "leaf" decision / arithmetic functions of the library are
read from clang's JSON AST of the CURRENT source tree and rendered as shallow Lean
definitions (plain total functions over Int / Nat / Bool, namespace `SockModel.Gen`) in
lean/SockModel/Generated/Funcs.lean.  Hand-written tie theorems at the end of the property
files (Props/C07.lean, C06, C10, C13, C01, C12) state that each generated function equals
the hand-written model function for ALL arguments; a change to one of these C++ functions
changes the generated definition and the tie theorem stops type-checking.

FAIL-SAFE: any construct outside the supported subset makes THAT function untranslatable
(`-- UNTRANSLATABLE <name>: <reason>` instead of its def); nothing is ever guessed.

The trusted part of the translator (kept small, repeated in the generated header):
  * chrono unit semantics taken from the desugared types (class `Chrono` below),
  * signed arithmetic is unbounded `Int` (signed overflow is undefined behaviour in C++),
  * integral conversions and unsigned arithmetic wrap (functions `convert`, `wrap_u`),
  * `std::min`/`std::max` are Lean `min`/`max`, `std::memcmp` is an abstract `Int`,
  * member fields / container queries become explicit parameters.
"""
import copy, hashlib, json, os, re, subprocess
from concurrent.futures import ThreadPoolExecutor
from math import gcd

CLANG = os.environ.get("VERIF_CLANG", "clang++-14")
ROOT = os.path.dirname(os.path.dirname(os.path.abspath(__file__)))
CACHE = os.path.join(ROOT, "build", "astcache")


# the TLS glue only exists with this define (the `tls` build flavours of tools/vlib.py)
EXTRA_FLAGS = {"socket_tls_impl.cpp": ["-DSOCKPUPPET_WITH_TLS"]}


class Untranslatable(Exception):
    pass


def fail(msg):
    raise Untranslatable(msg)


# --------------------------------------------------------------------------
# clang JSON AST, cached by content
# --------------------------------------------------------------------------

_clang_version = None


def clang_version():
    global _clang_version
    if _clang_version is None:
        try:
            r = subprocess.run([CLANG, "--version"], stdout=subprocess.PIPE, stderr=subprocess.STDOUT, text=True)
            _clang_version = r.stdout.split("\n")[0] if r.returncode == 0 else "missing"
        except OSError:
            _clang_version = "missing"
    return _clang_version


def _headers_digest(repo):
    h = hashlib.sha256()
    files = []
    for d in ("src", os.path.join("include", "sockpuppet")):
        p = os.path.join(repo, d)
        if os.path.isdir(p):
            files += [os.path.join(p, f) for f in sorted(os.listdir(p)) if f.endswith((".h", ".hpp"))]
    for f in files:
        h.update(os.path.relpath(f, repo).encode())
        with open(f, "rb") as fh:
            h.update(fh.read())
    return h.hexdigest()


def ast_docs(repo, src, flt, hdr_digest=None):
    """All declarations of <repo>/src/<src> whose qualified name contains `flt`, as parsed JSON
    documents.  Cached under build/astcache/<sha256(file + headers + filter + clang version + tree location)>."""
    path = os.path.join(repo, "src", src)
    try:
        with open(path, "rb") as fh:
            content = fh.read()
    except OSError:
        fail("source file src/%s is missing" % src)
    h = hashlib.sha256()
    h.update(content)
    h.update((hdr_digest or _headers_digest(repo)).encode())
    # the JSON contains absolute paths of the tree it was produced from (used by `source_text`), so the tree's
    # location is part of the key: a scratch copy with the same content must not serve /repo (or vice versa)
    h.update(("|%s|%s|%s|%s|%s" % (src, flt, clang_version(), os.path.abspath(repo), " ".join(EXTRA_FLAGS.get(src, [])))).encode())
    key = os.path.join(CACHE, h.hexdigest() + ".json")
    text = None
    if os.path.exists(key):
        with open(key) as fh:
            text = fh.read()
    if text is None:
        cmd = [CLANG, "-std=gnu++17"] + EXTRA_FLAGS.get(src, []) + [
               "-I" + os.path.join(repo, "include"), "-I" + os.path.join(repo, "src"),
               "-fsyntax-only", "-Xclang", "-ast-dump=json", "-Xclang", "-ast-dump-filter=" + flt, path]
        try:
            r = subprocess.run(cmd, stdout=subprocess.PIPE, stderr=subprocess.PIPE, text=True)
        except OSError as e:
            fail("cannot run %s: %s" % (CLANG, e))
        if r.returncode != 0:
            fail("clang rejects src/%s: %s" % (src, " ".join(r.stderr.strip().split("\n")[:2])[:200]))
        text = r.stdout
        os.makedirs(CACHE, exist_ok=True)
        tmp = key + ".%d.tmp" % os.getpid()
        with open(tmp, "w") as fh:
            fh.write(text)
        os.replace(tmp, key)
    docs = []
    dec = json.JSONDecoder()
    i = 0
    n = len(text)
    while True:
        while i < n and text[i].isspace():
            i += 1
        if i >= n:
            break
        d, i = dec.raw_decode(text, i)
        docs.append(d)
    return docs


def _prune_cache(keep=300):
    try:
        fs = sorted((os.path.join(CACHE, f) for f in os.listdir(CACHE) if f.endswith(".json")), key=os.path.getmtime)
        for f in fs[:-keep]:
            os.unlink(f)
    except OSError:
        pass


def walk(n):
    yield n
    for c in n.get("inner", []) or []:
        if isinstance(c, dict):
            yield from walk(c)


def kids(n):
    return [c for c in (n.get("inner") or []) if isinstance(c, dict) and c.get("kind")]


def body_of(fn):
    for c in kids(fn):
        if c["kind"] == "CompoundStmt":
            return c
    return None


def find_function(docs, name, record=None, kinds=("FunctionDecl", "CXXMethodDecl", "CXXConstructorDecl")):
    """the unique definition (has a body) of function `name` (inside record `record` when given).
    For a function template: the unique instantiation listed under the FunctionTemplateDecl."""
    found = []

    def visit(n, rec, in_template):
        k = n.get("kind")
        if k == "FunctionTemplateDecl" and n.get("name") == name:
            insts = [c for c in kids(n) if c["kind"] in kinds and c.get("name") == name and body_of(c) is not None
                     and any(x["kind"] == "TemplateArgument" for x in kids(c))]
            found.extend(insts)
            return
        if k in kinds and n.get("name") == name and body_of(n) is not None and not n.get("isImplicit"):
            if record is None or rec == record or record in (n.get("type", {}).get("qualType", "")) or _parent_matches(n, record):
                found.append(n)
            return
        nrec = n.get("name") if k == "CXXRecordDecl" else rec
        for c in kids(n):
            visit(c, nrec, in_template)

    for d in docs:
        visit(d, None, False)
    uniq = {f.get("id"): f for f in found}
    if len(uniq) != 1:
        fail("expected exactly one definition of %s%s, found %d" % ((record + "::") if record else "", name, len(uniq)))
    return list(uniq.values())[0]


def _parent_matches(n, record):
    # out-of-line member definitions are printed as top-level documents; the filter already selected
    # <record>::<name>, so accept a definition whose `this` type names the record
    for x in walk(n):
        if x.get("kind") == "CXXThisExpr":
            return record in x.get("type", {}).get("qualType", "")
    return n.get("kind") == "CXXConstructorDecl" and n.get("name") == record


# --------------------------------------------------------------------------
# types
# --------------------------------------------------------------------------

class Ty:
    def __init__(self, kind, signed=True, bits=0, num=0, den=0):
        self.kind, self.signed, self.bits, self.num, self.den = kind, signed, bits, num, den

    def __eq__(self, o):
        return isinstance(o, Ty) and (self.kind, self.signed, self.bits, self.num, self.den) == \
            (o.kind, o.signed, o.bits, o.num, o.den)

    def __repr__(self):
        if self.kind == "int":
            return "%s%d" % ("i" if self.signed else "u", self.bits)
        if self.kind in ("dur", "tp"):
            return "%s<%d/%d>" % (self.kind, self.num, self.den)
        return self.kind

    def lean(self):
        if self.kind == "bool":
            return "Bool"
        if self.kind == "int" and not self.signed:
            return "Nat"
        return "Int"


BOOL = Ty("bool")
INTS = {
    "int": Ty("int", True, 32), "long": Ty("int", True, 64), "long long": Ty("int", True, 64),
    "short": Ty("int", True, 16), "unsigned int": Ty("int", False, 32), "unsigned long": Ty("int", False, 64),
    "unsigned long long": Ty("int", False, 64), "unsigned short": Ty("int", False, 16),
}
_RATIO = r"(?:std::)?ratio<(\d+)(?:, (\d+))?>"
_DUR = r"(?:std::chrono::)?duration<long, " + _RATIO + r">"
RE_DUR = re.compile(r"^" + _DUR + r"$")
RE_TP = re.compile(r"^(?:std::chrono::)?time_point<std::chrono::steady_clock, " + _DUR + r">$")


def parse_type(t):
    """Ty of a clang type object ({qualType, desugaredQualType}); None when outside the subset"""
    if not t:
        return None
    s = t.get("desugaredQualType") or t.get("qualType") or ""
    s = s.strip()
    while True:
        s2 = re.sub(r"^const\s+", "", s)
        s2 = re.sub(r"\s*(&&|&)$", "", s2)
        s2 = re.sub(r"\s+const$", "", s2).strip()
        if s2 == s:
            break
        s = s2
    if s == "bool":
        return BOOL
    if s in INTS:
        return INTS[s]
    m = RE_DUR.match(s)
    if m:
        return Ty("dur", num=int(m.group(1)), den=int(m.group(2) or 1))
    if s in ("std::chrono::duration<long>", "duration<long>"):     # the default period: std::ratio<1>, seconds
        return Ty("dur", num=1, den=1)
    m = RE_TP.match(s)
    if m:
        return Ty("tp", num=int(m.group(1)), den=int(m.group(2) or 1))
    return None


def need_type(n):
    t = parse_type(n.get("type"))
    if t is None:
        fail("type %r of %s is outside the subset" % ((n.get("type") or {}).get("qualType"), n.get("kind")))
    return t


# --------------------------------------------------------------------------
# values: (lean text, Ty, form); form of a bool is 'prop' or 'bool'
# --------------------------------------------------------------------------

class Val:
    def __init__(self, s, ty, prop=False):
        self.s, self.ty, self.prop = s, ty, prop


def as_prop(v):
    if v.ty != BOOL:
        fail("condition is not a bool")
    if v.prop:
        return v.s
    if v.s == "true":
        return "True"
    if v.s == "false":
        return "False"
    return "(%s = true)" % v.s


def as_bool(v):
    if v.ty != BOOL:
        fail("value is not a bool")
    return "decide (%s)" % v.s if v.prop else v.s


def lit(n):
    return "(%d : Int)" % n if n >= 0 else "(%d : Int)" % n


def wrap_u(s, bits):
    """TRUSTED: unsigned arithmetic / conversion to unsigned is modulo 2^bits"""
    return "((%s) %% %d)" % (s, 2 ** bits)


def wrap_s(s, bits):
    """TRUSTED: narrowing conversion to a signed type wraps in two's complement (gcc/clang; C++20 rule)"""
    return "(Int.bmod (%s) %d)" % (s, 2 ** bits)


def convert(v, to):
    """TRUSTED: integral conversion of a value of integer type v.ty to integer type `to`"""
    fr = v.ty
    if fr == to:
        return v
    if fr.kind == "bool" and to.kind == "int":
        return Val("(if %s then (1 : Int) else 0)" % as_prop(v), to)
    if fr.kind != "int" or to.kind != "int":
        fail("conversion %r -> %r is outside the subset" % (fr, to))
    if to.signed:
        # every value of the source fits: identity
        if (fr.signed and fr.bits <= to.bits) or (not fr.signed and fr.bits < to.bits):
            return Val(v.s, to)
        return Val(wrap_s(v.s, to.bits), to)
    # to unsigned
    if not fr.signed and fr.bits <= to.bits:
        return Val(v.s, to)
    return Val(wrap_u(v.s, to.bits), to)


class Chrono:
    """TRUSTED chrono semantics.  A duration / time_point value is the Int count of its own tick
    period num/den seconds.  Mixed-period operands are converted to the finer period by an exact
    integer multiplication; duration_cast truncates toward zero."""

    @staticmethod
    def ratio(fr, to):
        # fr.period / to.period as a reduced fraction
        a, b = fr.num * to.den, fr.den * to.num
        g = gcd(a, b)
        return a // g, b // g

    @staticmethod
    def to_period(v, to):
        """implicit (lossless) conversion: only by an integer factor"""
        a, b = Chrono.ratio(v.ty, to)
        if b != 1:
            fail("implicit chrono conversion %r -> %r is not exact" % (v.ty, to))
        return v.s if a == 1 else "(%s * %d)" % (v.s, a)

    @staticmethod
    def common(x, y):
        # the finer period of the two, when one is an integer multiple of the other
        a, b = Chrono.ratio(x, y)
        if b == 1:
            return y
        if a == 1:
            return x
        fail("no common period for %r and %r within the subset" % (x, y))

    @staticmethod
    def cast(v, to):
        a, b = Chrono.ratio(v.ty, to)
        if b == 1:
            return v.s if a == 1 else "(%s * %d)" % (v.s, a)
        return "(Int.tdiv (%s * %d) %d)" % (v.s, a, b) if a != 1 else "(Int.tdiv %s %d)" % (v.s, b)


NUM_LIMITS = {
    ("int", "max"): 2147483647, ("int", "min"): -2147483648,
    ("uint16_t", "max"): 65535, ("uint16_t", "min"): 0,
    ("std::uint16_t", "max"): 65535, ("std::uint16_t", "min"): 0,
    ("unsigned short", "max"): 65535, ("unsigned short", "min"): 0,
}

LEAN_KEYWORDS = set("""abbrev at axiom by catch class def deriving do else end example extends finally for from fun
have if import in instance let macro match mut namespace nomatch open partial private protected return section show
structure suffices syntax then theorem this try universe unless unsafe until using variable where with Type Prop Sort
true false""".split())


def lean_ident(name, taken=()):
    """C++ identifier -> Lean identifier (keywords and clashes with the inputs get a trailing underscore)"""
    if not re.match(r"^[A-Za-z_][A-Za-z0-9_]*$", name or ""):
        fail("identifier %r" % name)
    while name in LEAN_KEYWORDS or name in taken:
        name += "_"
    return name


STRIP = ("ParenExpr", "MaterializeTemporaryExpr", "ExprWithCleanups", "CXXBindTemporaryExpr")


class Fn:
    """translation of one function body"""

    def __init__(self, repo, params_spec, rename=None):
        self.repo = repo
        self.spec = params_spec          # ordered [(lean name, Ty or None)]: the stable signature
        self.rename = rename or {}       # abstract input name as derived from the AST -> lean name
        self.used = {}                   # lean name -> Ty
        self.locals = {}                 # decl id -> (lean name, Ty)
        self.parm = {}                   # decl id -> (c name, Ty or None)
        self.memcmp_args = None
        self.file = None
        self.notes = []

    # ---- inputs --------------------------------------------------------
    def input(self, cname, ty):
        name = self.rename.get(cname, cname)
        names = [p for p, _ in self.spec]
        if name not in names:
            fail("reads `%s`, which is not one of the expected inputs %s" % (cname, names))
        want = dict(self.spec)[name]
        if want is not None and want != ty:
            fail("input `%s` has type %r, expected %r" % (cname, ty, want))
        self.used[name] = ty
        if ty.kind == "int" and not ty.signed:
            return Val("(%s : Int)" % name, ty)
        return Val(name, ty)

    def source_text(self, n):
        """source characters of node n (used only to CONFIRM the qualified spelling of a callee)"""
        r = n.get("range") or {}
        b, e = r.get("begin") or {}, r.get("end") or {}
        if "offset" not in b or "offset" not in e or self.file is None:
            return None
        if "file" in b and b["file"] != self.file:
            return None
        try:
            with open(self.file, "rb") as fh:
                data = fh.read()
        except OSError:
            return None
        return data[b["offset"]: e["offset"] + e.get("tokLen", 0)].decode(errors="replace")

    # ---- expressions ---------------------------------------------------
    def callee(self, n):
        """(referenced declaration name, kind, DeclRefExpr node) of a CallExpr / CXXOperatorCallExpr"""
        c = kids(n)[0]
        while c["kind"] in ("ImplicitCastExpr",) + STRIP:
            c = kids(c)[0]
        if c["kind"] != "DeclRefExpr" or "referencedDecl" not in c:
            fail("call through %s is outside the subset" % c["kind"])
        rd = c["referencedDecl"]
        return rd.get("name"), rd.get("kind"), c

    def base_name(self, b):
        """abstract name of the object a member is read from: `this` -> '', a parameter p -> 'p',
        p-> (smart pointer parameter) -> 'p', a reference local bound to an opaque object -> its name"""
        while b["kind"] in ("ImplicitCastExpr",) + STRIP:
            b = kids(b)[0]
        if b["kind"] == "CXXThisExpr":
            return ""
        if b["kind"] == "DeclRefExpr":
            rd = b.get("referencedDecl", {})
            if rd.get("kind") == "ParmVarDecl" and rd.get("id") in self.parm:
                return self.parm[rd["id"]][0]
            if rd.get("kind") == "VarDecl" and rd.get("id") in self.opaque:
                return self.opaque[rd["id"]]
            fail("member access on `%s` is outside the subset" % rd.get("name"))
        if b["kind"] == "CXXOperatorCallExpr":
            name, _, _ = self.callee(b)
            if name == "operator->" and len(kids(b)) == 2:
                return self.base_name(kids(b)[1])
        if b["kind"] == "MemberExpr":
            outer = self.base_name(kids(b)[0])
            return (outer + "_" if outer else "") + b.get("name", "?")
        fail("member access on %s is outside the subset" % b["kind"])

    opaque = {}

    def expr(self, n):
        k = n["kind"]
        if k in STRIP:
            return self.expr(kids(n)[0])
        if k == "IntegerLiteral":
            return Val(lit(int(n["value"])), need_type(n))
        if k == "CXXBoolLiteralExpr":
            return Val("true" if n.get("value") in (True, "true") else "false", BOOL)
        if k in ("ImplicitCastExpr", "CXXStaticCastExpr", "CXXFunctionalCastExpr"):
            ck = n.get("castKind")
            inner = kids(n)[0]
            if ck in ("LValueToRValue", "ConstructorConversion"):
                return self.expr(inner)
            if ck == "NoOp":
                v = self.expr(inner)
                t = parse_type(n.get("type"))
                if t is not None and t.kind == "int" and v.ty.kind == "int":
                    return convert(v, t)
                if t is not None and t != v.ty:
                    fail("NoOp cast changes the type %r -> %r" % (v.ty, t))
                return v
            if ck == "IntegralCast":
                return convert(self.expr(inner), need_type(n))
            if ck == "IntegralToBoolean":
                v = self.expr(inner)
                return Val("(%s ≠ 0)" % v.s, BOOL, True)
            fail("cast kind %s is outside the subset" % ck)
        if k == "CXXConstructExpr" or k == "CXXTemporaryObjectExpr":
            t = need_type(n)
            args = kids(n)
            if len(args) != 1:
                fail("constructor call with %d arguments" % len(args))
            v = self.expr(args[0])
            if t.kind == "dur" and v.ty.kind == "int":
                return Val(v.s, t)                      # Duration(n): n ticks
            if t.kind == "dur" and v.ty.kind == "dur":
                return Val(Chrono.to_period(v, t), t)   # copy / converting constructor
            if t.kind == "tp" and v.ty.kind == "tp":
                return Val(Chrono.to_period(v, t), t)
            if t == v.ty:
                return v
            fail("construction of %r from %r is outside the subset" % (t, v.ty))
        if k == "DeclRefExpr":
            rd = n.get("referencedDecl", {})
            if rd.get("kind") == "ParmVarDecl" and rd.get("id") in self.parm:
                cname, ty = self.parm[rd["id"]]
                ty = parse_type(n.get("type")) or ty      # the referring node carries the desugared type
                if ty is None:
                    fail("parameter `%s` has a type outside the subset" % cname)
                return self.input(cname, ty)
            if rd.get("kind") == "VarDecl" and rd.get("id") in self.locals:
                name, ty = self.locals[rd["id"]]
                return Val(name, ty)
            fail("reference to %s `%s` is outside the subset" % (rd.get("kind"), rd.get("name")))
        if k == "MemberExpr":
            base = self.base_name(kids(n)[0])
            cname = (base + "_" if base else "") + n.get("name", "?")
            return self.input(cname, need_type(n))
        if k == "CXXMemberCallExpr":
            me = kids(n)[0]
            if me["kind"] != "MemberExpr":
                fail("member call through %s" % me["kind"])
            meth = me.get("name")
            obj = kids(me)[0]
            if meth == "count" and len(kids(n)) == 1:
                v = self.expr(obj)
                if v.ty.kind != "dur":
                    fail(".count() on a non-duration")
                return Val(v.s, need_type(n))            # TRUSTED: count() is the identity
            if meth == "time_since_epoch" and len(kids(n)) == 1:
                v = self.expr(obj)
                if v.ty.kind != "tp":
                    fail(".time_since_epoch() on a non-time_point")
                return Val(v.s, Ty("dur", num=v.ty.num, den=v.ty.den))
            if meth in ("empty", "size") and len(kids(n)) == 1:
                base = self.base_name(obj)
                return self.input(base + "_" + meth, need_type(n))   # abstract container query
            fail("member call .%s() is outside the subset" % meth)
        if k == "CXXOperatorCallExpr":
            name, _, _ = self.callee(n)
            op = (name or "")[len("operator"):]
            args = kids(n)[1:]
            if op in ("+", "-", "<", ">", "<=", ">=", "==", "!=") and len(args) == 2:
                a, b = self.expr(args[0]), self.expr(args[1])
                return self.chrono_op(op, a, b, n)
            fail("overloaded operator%s is outside the subset" % op)
        if k == "CallExpr":
            return self.call(n)
        if k == "BinaryOperator":
            op = n.get("opcode")
            a, b = self.expr(kids(n)[0]), self.expr(kids(n)[1])
            if op in ("&&", "||"):
                return Val("(%s %s %s)" % (as_prop(a), "∧" if op == "&&" else "∨", as_prop(b)), BOOL, True)
            if op in ("<", ">", "<=", ">=", "==", "!="):
                if a.ty.kind == "bool" and b.ty.kind == "bool" and op in ("==", "!="):
                    return Val("(%s %s %s)" % (as_bool(a), "=" if op == "==" else "≠", as_bool(b)), BOOL, True)
                if a.ty.kind != "int" or a.ty != b.ty:
                    fail("comparison of %r with %r is outside the subset" % (a.ty, b.ty))
                lop = {"<": "<", ">": ">", "<=": "≤", ">=": "≥", "==": "=", "!=": "≠"}[op]
                return Val("(%s %s %s)" % (a.s, lop, b.s), BOOL, True)
            if op in ("+", "-", "*"):
                t = need_type(n)
                if t.kind != "int" or a.ty != t or b.ty != t:
                    fail("arithmetic on %r, %r -> %r is outside the subset" % (a.ty, b.ty, t))
                s = "(%s %s %s)" % (a.s, op, b.s)
                return Val(s if t.signed else wrap_u(s, t.bits), t)
            fail("binary operator %s is outside the subset" % op)
        if k == "UnaryOperator":
            op = n.get("opcode")
            v = self.expr(kids(n)[0])
            if op == "!":
                return Val("(¬ %s)" % as_prop(v), BOOL, True)
            if op == "-" and v.ty.kind == "int":
                t = need_type(n)
                if t != v.ty:
                    fail("unary minus changes the type")
                return Val("(-%s)" % v.s if t.signed else wrap_u("-%s" % v.s, t.bits), t)
            if op == "+" and v.ty.kind == "int":
                return v
            fail("unary operator %s is outside the subset" % op)
        if k == "ConditionalOperator":
            c, a, b = [self.expr(x) for x in kids(n)]
            if a.ty != b.ty:
                fail("conditional with arms of different types %r / %r" % (a.ty, b.ty))
            if a.ty == BOOL:
                return Val("(if %s then %s else %s)" % (as_prop(c), as_bool(a), as_bool(b)), BOOL)
            return Val("(if %s then %s else %s)" % (as_prop(c), a.s, b.s), a.ty)
        fail("expression kind %s is outside the subset" % k)

    def chrono_op(self, op, a, b, n):
        ka, kb = a.ty.kind, b.ty.kind
        if not ({ka, kb} <= {"dur", "tp"}):
            fail("operator%s on %r, %r is outside the subset" % (op, a.ty, b.ty))
        if op in ("+", "-"):
            t = need_type(n)
            shape = {("+", "tp", "dur"): "tp", ("+", "dur", "tp"): "tp", ("+", "dur", "dur"): "dur",
                     ("-", "tp", "tp"): "dur", ("-", "tp", "dur"): "tp", ("-", "dur", "dur"): "dur"}.get((op, ka, kb))
            if shape is None or t.kind != shape:
                fail("operator%s on %s, %s -> %s is outside the subset" % (op, ka, kb, t.kind))
            com = Chrono.common(a.ty, b.ty)
            if (com.num, com.den) != (t.num, t.den):
                fail("result period of operator%s is not the common period" % op)
            return Val("(%s %s %s)" % (Chrono.to_period(a, t), op, Chrono.to_period(b, t)), t)
        if ka != kb:
            fail("comparison of %s with %s" % (ka, kb))
        com = Chrono.common(a.ty, b.ty)
        lop = {"<": "<", ">": ">", "<=": "≤", ">=": "≥", "==": "=", "!=": "≠"}[op]
        return Val("(%s %s %s)" % (Chrono.to_period(a, com), lop, Chrono.to_period(b, com)), BOOL, True)

    def call(self, n):
        name, kind, ref = self.callee(n)
        args = kids(n)[1:]
        src = re.sub(r"\s+", "", self.source_text(ref) or "")
        if name == "duration_cast" and len(args) == 1:
            if not re.match(r"^(std::chrono::)?duration_cast<", src):
                fail("callee `%s` is not std::chrono::duration_cast" % src)
            v = self.expr(args[0])
            t = need_type(n)
            if v.ty.kind != "dur" or t.kind != "dur":
                fail("duration_cast %r -> %r" % (v.ty, t))
            return Val(Chrono.cast(v, t), t)
        if name in ("min", "max") and len(args) == 2:
            if src not in ("std::" + name,):
                fail("callee `%s` is not std::%s" % (src, name))
            a, b = self.expr(args[0]), self.expr(args[1])
            if a.ty != b.ty or a.ty.kind not in ("int", "dur", "tp"):
                fail("std::%s on %r, %r" % (name, a.ty, b.ty))
            return Val("(%s %s %s)" % (name, a.s, b.s), a.ty)   # TRUSTED: std::min/max on a total order
        if name == "clamp" and len(args) == 3:
            if src != "std::clamp":
                fail("callee `%s` is not std::clamp" % src)
            v, lo, hi = [self.expr(a) for a in args]
            if not (v.ty == lo.ty == hi.ty) or v.ty.kind not in ("int", "dur", "tp"):
                fail("std::clamp on %r, %r, %r" % (v.ty, lo.ty, hi.ty))
            # TRUSTED: std::clamp(v, lo, hi) = (v < lo) ? lo : (hi < v) ? hi : v
            return Val("(if %s < %s then %s else (if %s < %s then %s else %s))" % (v.s, lo.s, lo.s, hi.s, v.s, hi.s, v.s), v.ty)
        if name in ("min", "max") and len(args) == 0 and kind == "CXXMethodDecl":
            m = re.match(r"^std::numeric_limits<([A-Za-z0-9_: ]+)>::(min|max)$", src)
            if not m or m.group(2) != name or (m.group(1), name) not in NUM_LIMITS:
                fail("callee `%s` is not a known std::numeric_limits<T>::%s" % (src, name))
            t = need_type(n)
            val = NUM_LIMITS[(m.group(1), name)]
            lo, hi = (-(2 ** (t.bits - 1)), 2 ** (t.bits - 1) - 1) if t.signed else (0, 2 ** t.bits - 1)
            if t.kind != "int" or not (lo <= val <= hi) or (val not in (lo, hi)):
                fail("numeric_limits<%s>::%s does not match the result type %r" % (m.group(1), name, t))
            return Val(lit(val), t)
        if name == "memcmp" and len(args) == 3:
            if src not in ("std::memcmp", "memcmp", "::memcmp"):
                fail("callee `%s` is not memcmp" % src)
            texts = [re.sub(r"\s+", "", self.source_text(a) or "?") for a in args]
            if self.memcmp_args is not None and self.memcmp_args != texts:
                fail("two different memcmp calls in one function")
            self.memcmp_args = texts
            return self.input("cmp", need_type(n))              # abstract: the sign is what matters
        fail("call of `%s` is outside the subset" % name)

    # ---- statements ----------------------------------------------------
    def stmts(self, ss, ret, ind):
        """one Lean expression for a statement list, by continuation"""
        pad = "  " * ind
        if not ss:
            fail("control reaches the end of the function without a return")
        s, rest = ss[0], ss[1:]
        k = s["kind"]
        if k == "CompoundStmt":
            return self.stmts(kids(s) + rest, ret, ind)
        if k == "NullStmt":
            return self.stmts(rest, ret, ind)
        if k == "ReturnStmt":
            if not kids(s):
                fail("return without a value")
            return pad + self.ret(self.expr(kids(s)[0]), ret)
        if k == "DeclStmt":
            ds = kids(s)
            if len(ds) != 1 or ds[0]["kind"] != "VarDecl" or not kids(ds[0]):
                fail("declaration statement is not one initialised variable")
            d = ds[0]
            v = self.expr(kids(d)[-1])
            t = parse_type(d.get("type"))
            if t is not None and t != v.ty:
                v = convert(v, t) if (t.kind == "int" and v.ty.kind in ("int", "bool")) else fail(
                    "initialiser of `%s` has type %r, variable %r" % (d.get("name"), v.ty, t))
            name = lean_ident(d.get("name"), [p for p, _ in self.spec])
            if self.assigned(d["id"], rest):
                fail("variable `%s` is modified after its initialisation" % d.get("name"))
            self.locals[d["id"]] = (name, v.ty)
            val = as_bool(v) if v.ty == BOOL else v.s
            return "%slet %s : %s := %s\n%s" % (pad, name, v.ty.lean() if v.ty.lean() != "Nat" else "Int", val,
                                                self.stmts(rest, ret, ind))
        if k == "IfStmt":
            if s.get("hasInit") or s.get("hasVar"):
                fail("if with init-statement / condition variable")
            parts = kids(s)
            c = as_prop(self.expr(parts[0]))
            th = self.stmts([parts[1]] + rest, ret, ind + 1)
            el = self.stmts((([parts[2]] if len(parts) > 2 else []) + rest), ret, ind + 1)
            return "%sif %s then\n%s\n%selse\n%s" % (pad, c, th, pad, el)
        fail("statement kind %s is outside the subset" % k)

    def assigned(self, decl_id, ss):
        for s in ss:
            for x in walk(s):
                if x.get("kind") in ("BinaryOperator", "CompoundAssignOperator") and \
                        (x.get("opcode", "") in ("=",) or x.get("kind") == "CompoundAssignOperator"):
                    for y in walk(kids(x)[0]):
                        if y.get("kind") == "DeclRefExpr" and y.get("referencedDecl", {}).get("id") == decl_id:
                            return True
                if x.get("kind") == "UnaryOperator" and x.get("opcode") in ("++", "--", "&"):
                    for y in walk(x):
                        if y.get("kind") == "DeclRefExpr" and y.get("referencedDecl", {}).get("id") == decl_id:
                            return True
        return False

    def ret(self, v, ret):
        if ret == BOOL:
            return as_bool(v)
        if v.ty == ret:
            return v.s
        if ret.kind == "int" and v.ty.kind in ("int", "bool"):
            return convert(v, ret).s
        if ret.kind in ("dur", "tp") and v.ty.kind == ret.kind:
            return Chrono.to_period(v, ret)
        fail("returns %r from a function returning %r" % (v.ty, ret))

    def bind_params(self, fn):
        for c in kids(fn):
            if c["kind"] == "ParmVarDecl":
                self.parm[c.get("id")] = (c.get("name", "_"), parse_type(c.get("type")))
        loc = fn.get("loc") or {}
        f = loc.get("file") or (loc.get("expansionLoc") or {}).get("file")
        self.file = f

    # ---- rendering -----------------------------------------------------
    def signature(self):
        out = []
        for name, want in self.spec:
            ty = self.used.get(name, want)
            if ty is None:
                fail("input `%s` is not read and has no declared type" % name)
            out.append("(%s : %s)" % (name, ty.lean()))
        return " ".join(out)


# --------------------------------------------------------------------------
# the functions
# --------------------------------------------------------------------------

MS = Ty("dur", num=1, den=1000)
NS = Ty("dur", num=1, den=1000000000)
TPNS = Ty("tp", num=1, den=1000000000)
I32 = INTS["int"]
I64 = INTS["long"]
U32 = INTS["unsigned int"]
U64 = INTS["unsigned long"]


def _file_of(repo, docs, fn, src):
    """file that holds the function body: recorded by clang on the first location of a document"""
    f = None
    for d in docs:
        for x in walk(d):
            for key in ("loc", "range"):
                l = x.get(key) or {}
                for ll in (l, l.get("begin") or {}, l.get("end") or {}):
                    if "file" in ll:
                        f = ll["file"]
            if x is fn:
                lf = (fn.get("loc") or {}).get("file")
                return lf or f or os.path.join(repo, "src", src)
    return os.path.join(repo, "src", src)


def tr_function(repo, docs, src, cname, record, params, rename, ret, kinds=None):
    fn = find_function(docs, cname, record, kinds or ("FunctionDecl", "CXXMethodDecl"))
    t = Fn(repo, params, rename)
    t.bind_params(fn)
    t.file = _file_of(repo, docs, fn, src)
    body = t.stmts([body_of(fn)], ret, 1)
    return t, body


def tr_ctor_init(repo, docs, src, record, member, params, rename, ty):
    fn = find_function(docs, record, record, ("CXXConstructorDecl",))
    t = Fn(repo, params, rename)
    t.bind_params(fn)
    t.file = _file_of(repo, docs, fn, src)
    inits = [c for c in kids(fn) if c["kind"] == "CXXCtorInitializer" and (c.get("anyInit") or {}).get("name") == member]
    if len(inits) != 1 or len(kids(inits[0])) != 1:
        fail("expected exactly one initialiser of %s::%s" % (record, member))
    ft = parse_type(inits[0]["anyInit"].get("type"))
    if ft != ty:
        fail("field %s::%s has type %r, expected %r" % (record, member, ft, ty))
    # the member must not be assigned in the constructor body
    for x in walk(body_of(fn)):
        if x.get("kind") == "MemberExpr" and x.get("name") == member:
            fail("constructor body touches %s again" % member)
    return t, "  " + t.ret(t.expr(kids(inits[0])[0]), ty)


# ---- decision structure (functions with effects: only WHICH path is taken) ----

NEUTRAL_DECL_TYPES = re.compile(r"(^|::)(lock_guard<std::mutex>|StepGuard|PauseGuard)$")


def canon(n):
    """canonical text of an effect expression (used to recognise a path, never to give it meaning)"""
    k = n.get("kind")
    ks = kids(n)
    if k in STRIP or k in ("ImplicitCastExpr", "CXXStaticCastExpr"):
        return canon(ks[0])
    if k == "CXXFunctionalCastExpr":
        if ks and ks[0]["kind"] == "InitListExpr":
            return _tyname(n) + canon(ks[0])
        return canon(ks[0])
    if k == "DeclRefExpr":
        return n.get("referencedDecl", {}).get("name", "?")
    if k == "CXXThisExpr":
        return "this"
    if k == "StringLiteral":
        return n.get("value", "?")
    if k == "IntegerLiteral":
        return n.get("value", "?")
    if k == "UnaryOperator" and n.get("opcode") == "*":
        return "*" + canon(ks[0])
    if k == "MemberExpr":
        b = canon(ks[0]) if ks else "?"
        return n.get("name", "?") if b == "this" else "%s%s%s" % (b, "->" if n.get("isArrow") else ".", n.get("name", "?"))
    if k == "InitListExpr":
        return "{%s}" % ",".join(canon(c) for c in ks)
    if k in ("CXXConstructExpr", "CXXTemporaryObjectExpr"):
        if len(ks) == 1 and _same_type(n, ks[0]):
            return canon(ks[0])                     # copy / move construction
        return "%s(%s)" % (_tyname(n), ",".join(canon(c) for c in ks))
    if k in ("CXXMemberCallExpr", "CallExpr"):
        return "%s(%s)" % (canon(ks[0]), ",".join(canon(c) for c in ks[1:] if c["kind"] != "CXXDefaultArgExpr"))
    if k == "CXXOperatorCallExpr":
        name = canon(ks[0])
        if name == "operator->" and len(ks) == 2:
            return canon(ks[1])
        return "%s(%s)" % (name, ",".join(canon(c) for c in ks[1:]))
    if k == "CXXThrowExpr":
        return "throw " + canon(ks[0])
    return "?" + str(k)


def _tyname(n):
    s = (n.get("type") or {}).get("qualType", "?")
    s = re.sub(r"<.*>", "", s)
    return s.split("::")[-1]


def _same_type(a, b):
    ta = (a.get("type") or {})
    tb = (b.get("type") or {})
    norm = lambda t: re.sub(r"^const\s+", "", (t.get("desugaredQualType") or t.get("qualType") or "?"))
    return norm(ta) == norm(tb)


def _strip(n):
    while n["kind"] in STRIP:
        n = kids(n)[0]
    return n


def canon_stmt(s):
    k = s["kind"]
    if k == "DeclStmt":
        d = kids(s)[0]
        return "decl %s = %s" % (d.get("name"), canon(kids(d)[-1]) if kids(d) else "")
    if k == "ReturnStmt":
        return "return " + (canon(kids(s)[0]) if kids(s) else "")
    return canon(s)


class Decision:
    """IfStmt / ConditionalOperator tree of a function with effects -> Lean `if` tree whose leaves are
    constructors chosen by EXACT match of the canonical effect sequence of the path (else untranslatable).
    Conditions may only read parameters, fields and container queries at function entry: a path with a
    non-neutral statement before a condition is rejected."""

    def __init__(self, t, classify):
        self.t, self.classify = t, classify

    def split(self, s):
        """a DeclStmt / ReturnStmt / expression statement whose value is `c ? a : b` -> (c, stmt[a], stmt[b])"""
        k = s["kind"]
        if k == "DeclStmt" and len(kids(s)) == 1 and kids(kids(s)[0]):
            holder, idx = kids(s)[0], -1
        elif k == "ReturnStmt" and kids(s):
            holder, idx = s, 0
        else:
            return None
        inner = holder["inner"]
        real = [i for i, c in enumerate(inner) if isinstance(c, dict) and c.get("kind")]
        pos = real[idx]
        e = _strip(inner[pos])
        if e["kind"] != "ConditionalOperator":
            return None
        c, a, b = kids(e)
        out = []
        for arm in (a, b):
            s2 = copy.copy(s)
            if holder is s:
                s2["inner"] = list(inner)
                s2["inner"][pos] = arm
            else:
                h2 = copy.copy(holder)
                h2["inner"] = list(inner)
                h2["inner"][pos] = arm
                s2["inner"] = [h2]
            out.append(s2)
        return c, out[0], out[1]

    def walk(self, ss, path, ind):
        pad = "  " * ind
        i = 0
        path = list(path)
        while i < len(ss):
            s = ss[i]
            k = s["kind"]
            if k == "CompoundStmt":
                ss = ss[:i] + kids(s) + ss[i + 1:]
                continue
            cond = None
            if k == "IfStmt":
                if s.get("hasInit") or s.get("hasVar"):
                    fail("if with init-statement / condition variable")
                parts = kids(s)
                cond, th, el = parts[0], [parts[1]], ([parts[2]] if len(parts) > 2 else [])
            else:
                sp = self.split(s)
                if sp:
                    cond, th, el = sp[0], [sp[1]], [sp[2]]
            if cond is not None:
                for p in path:
                    # a lock guard, or a local that is only declared (default constructed chrono value / no initialiser)
                    if not p.startswith("neutral ") and not re.match(r"^decl \w+ = (Duration\(\))?$", p):
                        fail("statement `%s` precedes a condition" % p[:60])
                c = as_prop(self.t.expr(cond))
                rest = ss[i + 1:]
                return "%sif %s then\n%s\n%selse\n%s" % (pad, c, self.walk(th + rest, path, ind + 1), pad,
                                                         self.walk(el + rest, path, ind + 1))
            if k in ("ForStmt", "WhileStmt", "DoStmt", "SwitchStmt", "CXXTryStmt", "CXXForRangeStmt", "GotoStmt",
                     "BreakStmt", "ContinueStmt"):
                fail("statement kind %s in a decision function" % k)
            if k == "DeclStmt" and len(kids(s)) == 1 and kids(s)[0]["kind"] == "VarDecl" and kids(kids(s)[0]) and \
                    not any(not p.startswith("neutral ") for p in path):
                # an immutable local computed from the inputs before any effect (`auto const n = timeout.count();`): a `let`
                d = kids(s)[0]
                try:
                    v = self.t.expr(kids(d)[-1])
                    if v.ty.kind in ("int", "bool", "dur", "tp") and not self.t.assigned(d["id"], ss[i + 1:]):
                        name = lean_ident(d.get("name"), [p for p, _ in self.t.spec])
                        self.t.locals[d["id"]] = (name, v.ty)
                        # a local that reads the object's state is only the same decision when no guard is taken after it
                        tag = "neutral letstate " if any(x.get("kind") == "CXXThisExpr" for x in walk(kids(d)[-1])) else "neutral let "
                        rest_txt = self.walk(ss[i + 1:], path + [tag + name], ind)
                        return "%slet %s : %s := %s\n%s" % (pad, name, "Bool" if v.ty == BOOL else "Int",
                                                            as_bool(v) if v.ty == BOOL else v.s, rest_txt)
                except Untranslatable:
                    pass
            text = canon_stmt(s)
            if k == "DeclStmt" and NEUTRAL_DECL_TYPES.search(re.sub(r"^const\s+", "", (kids(s)[0].get("type") or {}).get("qualType", ""))):
                text = "neutral " + text
                if any(p.startswith("neutral letstate ") for p in path):
                    fail("the object's state is read before the guard `%s` is taken" % text[8:60])
            path.append(text)
            i += 1
            if k == "ReturnStmt" or (k in STRIP and _strip(s)["kind"] == "CXXThrowExpr") or k == "CXXThrowExpr":
                break
        leaf = normalise_leaf([p for p in path if not p.startswith("neutral ")])
        return pad + self.classify(leaf)


def normalise_leaf(leaf):
    """canonical effect sequence of a path, modulo spellings that cannot change its meaning:
      * a `return;` at the end of a void function;
      * `T x;` (default constructed, never read) followed later by `x = E`  ==  `T x = E`;
      * std::stack's `top()/pop()/push()/emplace()` are its container's `back()/pop_back()/push_back()/emplace_back()`"""
    leaf = list(leaf)
    if leaf and leaf[-1] == "return ":
        leaf = leaf[:-1]
    out = []
    for s in leaf:
        m = re.match(r"^operator=\((\w+),(.*)\)$", s)
        if m:
            x = m.group(1)
            idx = [i for i, o in enumerate(out) if re.match(r"^decl %s = (\w+\(\))?$" % re.escape(x), o)]
            if idx and not any(re.search(r"\b%s\b" % re.escape(x), o) for o in out[idx[-1] + 1:]) \
                    and not re.search(r"\b%s\b" % re.escape(x), m.group(2)):
                del out[idx[-1]]
                out.append("decl %s = %s" % (x, m.group(2)))
                continue
        out.append(s)
    syn = [(".back()", ".top()"), (".pop_back()", ".pop()")]
    res = []
    for s in out:
        for a, b in syn:
            s = s.replace(a, b)
        res.append(s)
    # a local that only names the element just appended (`auto &&x = c.emplace_back(a);`: emplace_back returns a
    # reference to the new last element) is that element: the effect is `c.emplace_back(a)`, later `x` is `c.top()`
    out2 = []
    alias = {}
    for s in res:
        for x, rep in alias.items():
            s = re.sub(r"(?<![A-Za-z0-9_.>])%s(?![A-Za-z0-9_])" % re.escape(x), rep, s)
        m = re.match(r"^decl (\w+) = ((\w+)\.emplace_back\(.*\))$", s)
        if m:
            alias[m.group(1)] = m.group(3) + ".top()"
            s = m.group(2)
        out2.append(s)
    return out2


def classify_table(table):
    def f(leaf):
        for ctor, seqs in table:
            if leaf in seqs:
                return ctor
        fail("unrecognised effect sequence %s" % json.dumps(leaf))
    return f


GET_TABLE = [
    # (after `normalise_leaf`: a local naming the appended element is `m_busy.top()`)
    (".allocateNew", [["m_busy.emplace_back(make_unique())", "return BufferPtr(m_busy.top().get(),Recycler{this})"]]),
    (".throwOutOfBuffers", [["throw runtime_error(out of buffers)"], ['throw runtime_error("out of buffers")']]),
    (".reuseIdleTop true", [["m_busy.emplace_back(move(m_idle.top()))", "m_idle.pop()", "m_busy.top()->clear()",
                             "return BufferPtr(m_busy.top().get(),Recycler{this})"]]),
    (".reuseIdleTop false", [["m_busy.emplace_back(move(m_idle.top()))", "m_idle.pop()",
                              "return BufferPtr(m_busy.top().get(),Recycler{this})"]]),
]
STEP_TABLE = [
    (".socketsOnly", [["StepSockets(timeout)"]]),
    (".todosUnlimited", [["decl remaining = StepTodos(DeadlineUnlimitedTime())", "StepSockets(remaining)"]]),
    (".todosZero", [["decl remaining = StepTodos(DeadlineZeroTime())", "StepSockets(remaining)"]]),
    (".todosLimited", [["decl remaining = StepTodos(DeadlineLimited(timeout))", "StepSockets(remaining)"]]),
]
SEND_TABLE = [
    (".sendAll", [["return SendAll(fd,data,size)"]]),
    (".sendTry", [["return SendTry(fd,data,size)"]]),
    (".sendSomeLimited", [["decl deadline = DeadlineLimited(timeout)", "return SendSome(fd,data,size,deadline)"]]),
]


def tr_decision(repo, docs, src, cname, record, params, rename, table):
    fn = find_function(docs, cname, record, ("FunctionDecl", "CXXMethodDecl"))
    t = Fn(repo, params, rename)
    t.bind_params(fn)
    t.file = _file_of(repo, docs, fn, src)
    d = Decision(t, classify_table(table))
    return t, d.walk([body_of(fn)], [], 1)


def tr_steptodos_due(repo, docs, src):
    """the "not yet due" test of StepTodos: the first two statements of the do-body after the assert:
    `auto &front = todos.front(); auto until = front->when - deadline.now; if(until.count() > 0)`"""
    insts = {}
    for d in docs:
        for x in walk(d):
            if x.get("kind") == "FunctionTemplateDecl" and x.get("name") == "StepTodos":
                for c in kids(x):
                    if c["kind"] == "CXXMethodDecl" and body_of(c) is not None and \
                            any(y["kind"] == "TemplateArgument" for y in kids(c)):
                        insts[c.get("id")] = c
    insts = [insts[k] for k in sorted(insts)]
    if not insts:
        fail("no instantiation of StepTodos")
    outs = set()
    res = None
    for fn in insts:
        t = Fn(repo, [("front_when", TPNS), ("deadline_now", TPNS)], {})
        t.bind_params(fn)
        t.file = _file_of(repo, docs, fn, src)
        t.opaque = {}
        top = [s for s in kids(body_of(fn))]
        if top and top[0]["kind"] == "DoStmt":
            dob = kids(top[0])[0]
        elif top and top[0]["kind"] == "ForStmt" and len(kids(top[0])) == 1:     # for(;;)
            dob = kids(top[0])[0]
        else:
            fail("StepTodos does not start with a do-loop / for(;;)")
        ss = [s for s in kids(dob) if not _is_assert(s)]
        if len(ss) < 3:
            fail("do-body too short")
        s0, s1, s2 = ss[0], ss[1], ss[2]
        if canon_stmt(s0) != "decl front = todos.front()":
            fail("first statement of the do-body is `%s`" % canon_stmt(s0)[:60])
        t.opaque[kids(s0)[0]["id"]] = "front"
        if s1["kind"] != "DeclStmt" or s2["kind"] != "IfStmt":
            fail("do-body does not continue with `auto until = ...; if(...)`")
        d = kids(s1)[0]
        v = t.expr(kids(d)[-1])
        uname = lean_ident(d.get("name"), [p for p, _ in t.spec])
        t.locals[d["id"]] = (uname, v.ty)
        c = as_prop(t.expr(kids(s2)[0]))
        then = canon_stmt(_only(kids(s2)[1]))
        if then != "return MinDuration(until,deadline.Remaining())" or len(kids(s2)) > 2:
            fail("the not-due branch is `%s`" % then[:80])
        body = "  let %s : Int := %s\n  decide (%s)" % (uname, v.s, c)
        outs.add(body)
        res = (t, body)
    if len(outs) != 1:
        fail("instantiations of StepTodos differ")
    return res


def _is_assert(s):
    """glibc's assert(): `(cond ? void(0) : __assert_fail(...))`, a void expression statement"""
    e = _strip(s)
    if e["kind"] != "ConditionalOperator" or (e.get("type") or {}).get("qualType") != "void":
        return False
    return any(x.get("kind") == "DeclRefExpr" and x.get("referencedDecl", {}).get("name") == "__assert_fail"
               for x in walk(kids(e)[2]))


# calls without any effect on what the model describes (trusted: listed here, nowhere else).  `ERR_clear_error()`: the
# per-thread OpenSSL error queue is not part of the glue model; its hygiene (F15) is exercised by the C18 harness
NOOP_CALLS = ("ERR_clear_error",)


def _is_noop_call(s):
    e = _strip(s)
    if e["kind"] != "CallExpr" or len(kids(e)) != 1:
        return False
    return any(x.get("kind") == "DeclRefExpr" and x.get("referencedDecl", {}).get("name") in NOOP_CALLS
               for x in walk(kids(e)[0]))


def _only(s):
    if s["kind"] == "CompoundStmt":
        if len(kids(s)) != 1:
            fail("branch with %d statements" % len(kids(s)))
        return kids(s)[0]
    return s


def _src_norm(t, n):
    """source text of a statement without comments and white space (used to RECOGNISE an effect leaf, never to give
    it meaning)"""
    txt = t.source_text(n)
    if txt is None:
        fail("no source text for a %s" % n.get("kind"))
    txt = re.sub(r"//[^\n]*", "", txt)
    txt = re.sub(r"/\*.*?\*/", "", txt, flags=re.S)
    return re.sub(r"\s+", "", txt)


def _const_int(n):
    n = _strip(n)
    while n["kind"] in ("ImplicitCastExpr", "CStyleCastExpr", "CXXStaticCastExpr", "ConstantExpr") and len(kids(n)) == 1:
        n = _strip(kids(n)[0])
    if n["kind"] == "IntegerLiteral":
        return int(n["value"])
    if n["kind"] == "BinaryOperator" and n.get("opcode") == "|":
        return _const_int(kids(n)[0]) | _const_int(kids(n)[1])
    fail("mask is not a constant")


def _bit_cond(n):
    """conditions of the dispatch chain: `pfd.revents & MASK`, `i == received`, `||`, `&&`, `!`  ->  Lean Prop text
    over `revents : Nat` and `isReceived : Bool`"""
    n = _strip(n)
    while n["kind"] == "ImplicitCastExpr" and len(kids(n)) == 1:
        n = _strip(kids(n)[0])
    k = n["kind"]
    if k == "BinaryOperator" and n.get("opcode") in ("||", "&&"):
        return "(%s %s %s)" % (_bit_cond(kids(n)[0]), "∨" if n["opcode"] == "||" else "∧", _bit_cond(kids(n)[1]))
    if k == "UnaryOperator" and n.get("opcode") == "!":
        return "(¬ %s)" % _bit_cond(kids(n)[0])
    if k == "BinaryOperator" and n.get("opcode") == "&":
        if canon(kids(n)[0]) != "pfd.revents":
            fail("bit test of `%s`" % canon(kids(n)[0])[:40])
        return "(revents &&& %d ≠ 0)" % _const_int(kids(n)[1])
    if k == "BinaryOperator" and n.get("opcode") == "==" and sorted([canon(kids(n)[0]), canon(kids(n)[1])]) == ["i", "received"]:
        return "(isReceived = true)"
    fail("condition of the dispatch chain outside the subset (%s)" % k)


SOCKET_LEAVES = {
    "sock.DriverOnReadable();return;": ".readable",
    "if(sock.DriverOnWritable()){pfd.events&=~POLLOUT;};return;": ".writable",
    "sock.DriverOnError(\"pollhangup/error\");return;": ".error",
}


def tr_socket_chain(repo, docs, src):
    """`Driver::DriverImpl::DoOneSocketTask(received)`: what it does with ONE socket of its list, as a decision
    function of that socket's `revents` and of "this is the socket `QuerySockets` returned" (the model's `pick`).
    The chain of tests is found in the body of the loop over the sockets, or in the helper function of the same file
    that the loop body calls with the socket; it may be an `if / else if` chain or a sequence of `if(..) {..; return ..;}`.
    Each branch is recognised by the ONE `sock.DriverOn*` call it makes (the writable branch must be exactly
    `if(sock.DriverOnWritable()) { pfd.events &= ~POLLOUT; }`) and must end in a `return`."""
    fn = find_function(docs, "DoOneSocketTask", "DriverImpl", ("CXXMethodDecl",))
    t = Fn(repo, [("revents", INTS["unsigned int"]), ("isReceived", BOOL)], {})
    t.bind_params(fn)
    t.file = _file_of(repo, docs, fn, src)
    top = [x for x in kids(body_of(fn)) if not _is_assert(x)]
    loops = [x for x in top if x["kind"] in ("ForStmt", "CXXForRangeStmt")]
    if len(loops) != 1 or _strip(top[-1])["kind"] != "CXXThrowExpr" or top.index(loops[0]) != len(top) - 2:
        fail("body is not `.. for(each socket) {..} throw std::logic_error(..)`")
    if "sockets" not in _src_norm(t, loops[0]).split("{")[0]:
        fail("the loop does not run over `sockets`")
    body = kids(loops[0])[-1]
    ss = [x for x in (kids(body) if body["kind"] == "CompoundStmt" else [body]) if not _is_assert(x)]
    received_names = set()

    def is_received(n):
        n = _strip(n)
        while n["kind"] == "ImplicitCastExpr" and len(kids(n)) == 1:
            n = _strip(kids(n)[0])
        if n["kind"] == "BinaryOperator" and n.get("opcode") == "==" and "received" in (canon(kids(n)[0]), canon(kids(n)[1])):
            return True
        return n["kind"] == "DeclRefExpr" and n.get("referencedDecl", {}).get("name") in received_names

    def cond(n):
        n = _strip(n)
        while n["kind"] == "ImplicitCastExpr" and len(kids(n)) == 1:
            n = _strip(kids(n)[0])
        if is_received(n):
            return "(isReceived = true)"
        k = n["kind"]
        if k == "BinaryOperator" and n.get("opcode") in ("||", "&&"):
            return "(%s %s %s)" % (cond(kids(n)[0]), "∨" if n["opcode"] == "||" else "∧", cond(kids(n)[1]))
        if k == "UnaryOperator" and n.get("opcode") == "!":
            return "(¬ %s)" % cond(kids(n)[0])
        if k == "BinaryOperator" and n.get("opcode") == "&":
            if canon(kids(n)[0]) not in ("pfd.revents", "pfd->revents"):
                fail("bit test of `%s`" % canon(kids(n)[0])[:40])
            return "(revents &&& %d ≠ 0)" % _const_int(kids(n)[1])
        if k == "BinaryOperator" and n.get("opcode") in ("!=", "==") and kids(n)[0] and \
                _strip(kids(n)[0])["kind"] in ("ParenExpr", "BinaryOperator", "ImplicitCastExpr"):
            # `(pfd.revents & MASK) != 0`
            try:
                if _const_int(kids(n)[1]) == 0:
                    c = cond(kids(n)[0])
                    return c if n["opcode"] == "!=" else "(¬ %s)" % c
            except Untranslatable:
                pass
        fail("condition of the dispatch chain outside the subset (%s)" % k)

    # the chain itself: here, or in the helper the loop body hands the socket to
    host_file = t.file
    calls = [x for st_ in ss for x in walk(st_) if x.get("kind") in ("CallExpr", "CXXMemberCallExpr")
             and any(y.get("kind") == "DeclRefExpr" and y.get("referencedDecl", {}).get("name") == "sock" for a in kids(x)[1:] for y in walk(a))]
    chain_stmts = None
    if any(x["kind"] == "IfStmt" and any(c in _src_norm(t, x) for c in ("DriverOnReadable", "DriverOnError")) for x in ss):
        chain_stmts = [x for x in ss if x["kind"] == "IfStmt"]
        extra = [x for x in ss if x["kind"] not in ("IfStmt", "DeclStmt")]
        if extra:
            fail("the loop body contains `%s`" % _src_norm(t, extra[0])[:50])
    elif len(calls) == 1:
        call = calls[0]
        callee = kids(call)[0]
        name = callee.get("name") if callee.get("kind") == "MemberExpr" else None
        if name is None:
            try:
                name = t.callee(call)[0]
            except Untranslatable:
                fail("the loop body calls something that is not a named function")
        hdocs = ast_docs(repo, src, name)
        cands = {}
        for d in hdocs:
            for x in walk(d):
                if x.get("kind") in ("FunctionDecl", "CXXMethodDecl") and x.get("name") == name and body_of(x) is not None \
                        and len([c for c in kids(x) if c["kind"] == "ParmVarDecl"]) == len(kids(call)) - 1:
                    cands[x.get("id")] = x
        if len(cands) != 1:
            fail("helper `%s` of the loop body: %d definitions" % (name, len(cands)))
        h = list(cands.values())[0]
        host_file = _file_of(repo, hdocs, h, src)
        # its bool parameter that receives `index == received`
        for p, a in zip([c for c in kids(h) if c["kind"] == "ParmVarDecl"], kids(call)[1:]):
            if is_received(a):
                received_names.add(p.get("name"))
        # the call must decide the `return` of the loop: `if(helper(..)) return;`
        holder = [x for x in ss if any(y is call for y in walk(x))][0]
        if holder["kind"] != "IfStmt" or _src_norm(t, kids(holder)[1]).strip("{}") not in ("return;", "return"):
            fail("the result of `%s` does not decide the `return` of the loop" % name)
        chain_stmts = [x for x in kids(body_of(h)) if not _is_assert(x)]
        if _src_norm(_Tmp(host_file), chain_stmts[-1]) not in ("returnfalse", "returnfalse;"):
            fail("helper `%s` does not end in `return false`" % name)
        chain_stmts = chain_stmts[:-1]
    else:
        fail("no dispatch chain found in the loop over the sockets")
    tt = _Tmp(host_file)

    def flatten(stmts):
        out = []
        for x in stmts:
            if x["kind"] != "IfStmt":
                fail("the chain contains `%s`" % _src_norm(tt, x)[:50])
            n = x
            while True:
                parts = kids(n)
                out.append((parts[0], parts[1]))
                if len(parts) == 2:
                    break
                if parts[2]["kind"] != "IfStmt":
                    fail("the chain ends in a plain else")
                n = parts[2]
        return out

    def leaf(n):
        inner = kids(n) if n["kind"] == "CompoundStmt" else [n]
        if not inner or inner[-1]["kind"] != "ReturnStmt":
            fail("a branch of the chain does not end in a return")
        eff = inner[:-1]
        names = sorted({m for x in eff for m in re.findall(r"sock\.(DriverOn\w+)\(", _src_norm(tt, x))})
        if names == ["DriverOnReadable"] and len(eff) == 1 and _src_norm(tt, eff[0]).rstrip(";") == "sock.DriverOnReadable()":
            return ".readable"
        if names == ["DriverOnWritable"] and len(eff) == 1 and \
                _src_norm(tt, eff[0]) in ("if(sock.DriverOnWritable()){pfd.events&=~POLLOUT;}",):
            return ".writable"
        if names == ["DriverOnError"] and len(eff) == 1 and re.match(r'^sock\.DriverOnError\("[^"]*"\);?$', _src_norm(tt, eff[0])):
            return ".error"
        fail("unrecognised task `%s`" % "".join(_src_norm(tt, x) for x in eff)[:80])
    branches = [(cond(c), leaf(b)) for c, b in flatten(chain_stmts)]

    def render(i, ind):
        pad = "  " * ind
        if i == len(branches):
            return pad + ".next"
        return "%sif %s then\n%s  %s\n%selse\n%s" % (pad, branches[i][0], pad, branches[i][1], pad, render(i + 1, ind + 1))
    return t, render(0, 1)


class _Tmp:
    """just enough of `Fn` for `_src_norm` on a node of another file"""
    def __init__(self, file):
        self.file = file

    def source_text(self, n):
        return Fn.source_text(self, n)


class _InsertFn(Fn):
    """`Fn` that also reads a field of the element in front of the iterator `where`: `(*std::prev(where))->f` is the input `prev_f`"""
    def base_name(self, b):
        txt = re.sub(r"\s+", "", self.source_text(b) or "")
        if txt in ("(*std::prev(where))", "*std::prev(where)", "std::prev(where)->get()", "(*(where-1))", "*(where-1)", "where[-1]"):
            return "prev"
        return Fn.base_name(self, b)


class _Sig:
    def __init__(self, file, sig):
        self.file, self.sig, self.memcmp_args = file, sig, None

    def signature(self):
        return self.sig


def tr_todos_insert(repo, docs, src):
    """`ToDos::Insert(todo)`: the index at which `emplace` puts the new element, as a function of the `when` values of the
    list.  Two ways of searching are understood (anything else is untranslatable):
      * `where = Find(P{todo->when})` with `Find(pred) = std::find_if(begin(), end(), pred)`: `findIfIdx P_call`
      * `where = end(); while((where != begin()) && C(*std::prev(where))) --where;`: `backScanIdx C`
    followed by `emplace(where, std::move(todo))` and nothing else."""
    fn = find_function(docs, "Insert", "ToDos", ("CXXMethodDecl",))
    file = _file_of(repo, docs, fn, src)
    tt = _Tmp(file)
    ss = [x for x in kids(body_of(fn)) if not _is_assert(x)]
    txt = [_src_norm(tt, x).rstrip(";") for x in ss]
    if not ss or txt[-1] not in ("(void)emplace(where,std::move(todo))", "emplace(where,std::move(todo))",
                                 "(void)insert(where,std::move(todo))", "insert(where,std::move(todo))"):
        fail("does not end in `emplace(where, std::move(todo))`")
    sig = "(ws : List Int) (when : Int)"
    m = re.match(r"^(?:auto|iterator|std::deque<ToDoShared>::iterator)where=Find\((\w+)\{todo->when\}\)$", txt[0]) if len(ss) == 2 else None
    if m:
        fdocs = ast_docs(repo, src, "Find")
        finds = [x for d in fdocs for x in walk(d) if x.get("kind") == "CXXMethodDecl" and x.get("name") == "Find" and body_of(x) is not None]
        # the template pattern and its instantiations share the source range of the pattern (in this file)
        bodies = {tuple(_src_norm(tt, x).rstrip(";") for x in kids(body_of(find)) if not _is_assert(x)) for find in finds}
        if bodies != {("returnstd::find_if(begin(),end(),pred)",)}:
            fail("`Find` is not `return std::find_if(begin(), end(), pred)`")
        pdocs = ast_docs(repo, src, m.group(1))
        t, body = tr_function(repo, pdocs, src, "operator()", m.group(1), [("when", TPNS), ("x", TPNS)], {"todo_when": "x"}, BOOL)
        body = "\n".join("    " + ln for ln in body.split("\n"))
        return _Sig(file, sig), "  findIfIdx (fun (x : Int) =>\n%s) ws" % body
    if len(ss) == 3 and txt[0] in ("autowhere=end()", "iteratorwhere=end()") and ss[1]["kind"] == "WhileStmt":
        c, b = kids(ss[1])[0], kids(ss[1])[1]
        if _src_norm(tt, b).strip("{}").rstrip(";") not in ("--where", "where--", "where=std::prev(where)"):
            fail("the backward search does not step by `--where`")
        c = _strip(c)
        if c["kind"] != "BinaryOperator" or c.get("opcode") != "&&" or \
                _src_norm(tt, kids(c)[0]).strip("()") not in ("where!=begin", "begin()!=where"):
            fail("the backward search is not guarded by `where != begin()` first")
        t = _InsertFn(repo, [("when", TPNS), ("x", TPNS)], {"todo_when": "when", "prev_when": "x"})
        t.bind_params(fn)
        t.file = file
        v = t.expr(kids(c)[1])
        return _Sig(file, sig), "  backScanIdx (fun (x : Int) =>\n    %s) ws ws.length" % as_bool(v)
    fail("the search for the position is neither `Find(pred)` nor a backward scan from `end()`")


def tr_range_guard(repo, docs, src):
    """`CheckServiceNumericOutOfRange`: the condition of its (only) if statement on the parsed number"""
    fn = find_function(docs, "CheckServiceNumericOutOfRange", None, ("FunctionDecl",))
    t = Fn(repo, [("port", I64)], {})
    t.bind_params(fn)
    t.file = _file_of(repo, docs, fn, src)
    ss = kids(body_of(fn))
    if len(ss) != 2 or ss[0]["kind"] != "DeclStmt" or ss[1]["kind"] != "IfStmt":
        fail("body is not `auto port = std::stoll(serv); if(...) throw ...;`")
    d = kids(ss[0])[0]
    if canon_stmt(ss[0]) != "decl port = stoll(serv)" or parse_type(d.get("type")) != I64:
        fail("first statement is `%s`" % canon_stmt(ss[0])[:60])
    # the parsed number becomes the (abstract) input `port`
    class _P(Fn):
        pass
    t.locals[d["id"]] = ("port", I64)
    t.used["port"] = I64
    c = as_prop(t.expr(kids(ss[1])[0]))
    th = _only(kids(ss[1])[1])
    if len(kids(ss[1])) != 2 or _strip(th)["kind"] != "CXXThrowExpr" or "runtime_error" not in canon(th):
        fail("the guarded statement is not `throw std::runtime_error(...)`")
    return t, "  decide (%s)" % c


# name, lean return type, source file, clang filter, builder
def SPECS():
    return [
        ("ToMsec", "Int", "wait.cpp", "ToMsec",
         lambda r, d, s: tr_function(r, d, s, "ToMsec", None, [("timeout", MS)], {}, I32)),
        ("Unlimited_TimeLeft", "Bool", "wait.cpp", "wait_detail::Unlimited",
         lambda r, d, s: tr_function(r, d, s, "TimeLeft", "Unlimited", [], {}, BOOL)),
        ("Unlimited_Remaining", "Int", "wait.cpp", "wait_detail::Unlimited",
         lambda r, d, s: tr_function(r, d, s, "Remaining", "Unlimited", [], {}, MS)),
        ("ZeroLimited_TimeLeft", "Bool", "wait.cpp", "wait_detail::ZeroLimited",
         lambda r, d, s: tr_function(r, d, s, "TimeLeft", "ZeroLimited", [], {}, BOOL)),
        ("ZeroLimited_Remaining", "Int", "wait.cpp", "wait_detail::ZeroLimited",
         lambda r, d, s: tr_function(r, d, s, "Remaining", "ZeroLimited", [], {}, MS)),
        ("DeadlineLimited_deadline", "Int", "wait.cpp", "DeadlineLimited",
         lambda r, d, s: tr_ctor_init(r, d, s, "DeadlineLimited", "deadline", [("now", TPNS), ("timeout", MS)], {}, TPNS)),
        ("DeadlineLimited_TimeLeft", "Bool", "wait.cpp", "DeadlineLimited",
         lambda r, d, s: tr_function(r, d, s, "TimeLeft", "DeadlineLimited", [("now", TPNS), ("deadline", TPNS)], {}, BOOL)),
        ("DeadlineLimited_Remaining", "Int", "wait.cpp", "DeadlineLimited",
         lambda r, d, s: tr_function(r, d, s, "Remaining", "DeadlineLimited", [("now", TPNS), ("deadline", TPNS)], {}, MS)),
        ("MinDuration", "Int", "driver_impl.cpp", "MinDuration",
         lambda r, d, s: tr_function(r, d, s, "MinDuration", None, [("lhs", NS), ("rhs", MS)], {}, MS)),
        ("Step_dispatch", "StepChoice", "driver_impl.cpp", "DriverImpl::Step",
         lambda r, d, s: tr_decision(r, d, s, "Step", "DriverImpl", [("todos_empty", BOOL), ("timeout", MS)], {}, STEP_TABLE)),
        ("StepTodos_notDue", "Bool", "driver_impl.cpp", "DriverImpl::Step",
         lambda r, d, s: tr_steptodos_due(r, d, s)),
        ("Todos_Insert_pos", "Nat", "todo_impl.cpp", "ToDos::Insert",
         lambda r, d, s: tr_todos_insert(r, d, s)),
        ("BufferPool_m_maxCount", "Int", "socket_buffered.cpp", "BufferPool::BufferPool",
         lambda r, d, s: tr_ctor_init(r, d, s, "BufferPool", "m_maxCount", [("maxCount", U64)], {}, U64)),
        ("BufferPool_Get", "GetChoice", "socket_buffered.cpp", "BufferPool::Get",
         lambda r, d, s: tr_decision(r, d, s, "Get", "BufferPool",
                                     [("m_maxCount", U64), ("m_idle_empty", BOOL), ("m_busy_size", U64)], {}, GET_TABLE)),
        ("SockAddrView_lt", "Bool", "address_impl.cpp", "SockAddrView::operator",
         lambda r, d, s: tr_function(r, d, s, "operator<", "SockAddrView",
                                     [("addrLen", U32), ("other_addrLen", U32), ("cmp", I32)], {}, BOOL)),
        ("SockAddrView_eq", "Bool", "address_impl.cpp", "SockAddrView::operator",
         lambda r, d, s: tr_function(r, d, s, "operator==", "SockAddrView",
                                     [("addrLen", U32), ("other_addrLen", U32), ("cmp", I32)], {}, BOOL)),
        ("Send_dispatch", "SendChoice", "socket_impl.cpp", "SocketImpl::Send",
         lambda r, d, s: tr_decision(r, d, s, "Send", "SocketImpl", [("timeout", MS)], {}, SEND_TABLE)),
        ("SocketTask_chain", "TaskChoice", "driver_impl.cpp", "DriverImpl::DoOneSocketTask",
         lambda r, d, s: tr_socket_chain(r, d, s)),
        ("ServiceOutOfRange", "Bool", "address_impl.cpp", "CheckServiceNumericOutOfRange",
         lambda r, d, s: tr_range_guard(r, d, s)),
    ]


WHAT = {
    "ToMsec": "`ToMsec(Duration)`",
    "Unlimited_TimeLeft": "`wait_detail::Unlimited::TimeLeft`",
    "Unlimited_Remaining": "`wait_detail::Unlimited::Remaining` (ms)",
    "ZeroLimited_TimeLeft": "`wait_detail::ZeroLimited::TimeLeft`",
    "ZeroLimited_Remaining": "`wait_detail::ZeroLimited::Remaining` (ms)",
    "DeadlineLimited_deadline": "`DeadlineLimited::DeadlineLimited(Duration timeout)`, initialiser of `deadline` (ns; `now` ns, `timeout` ms)",
    "DeadlineLimited_TimeLeft": "`DeadlineLimited::TimeLeft`",
    "DeadlineLimited_Remaining": "`DeadlineLimited::Remaining` (ms)",
    "MinDuration": "`MinDuration<long, std::nano>(lhs ns, rhs ms)` (ms)",
    "Step_dispatch": "decision structure of `Driver::DriverImpl::Step(Duration timeout)`",
    "StepTodos_notDue": "`Driver::DriverImpl::StepTodos`: `until = front->when - deadline.now; if(until.count() > 0)` "
                        "(the branch returns `MinDuration(until, deadline.Remaining())`; same in every instantiation)",
    "Todos_Insert_pos": "`ToDos::Insert(ToDoShared todo)`: index (in the list of `when` values `ws`) at which the new element is emplaced",
    "BufferPool_m_maxCount": "`BufferPool::BufferPool(size_t maxCount, size_t)`, initialiser of `m_maxCount`",
    "BufferPool_Get": "decision structure of `BufferPool::Get`",
    "SockAddrView_lt": "`SockAddrView::operator<`",
    "SockAddrView_eq": "`SockAddrView::operator==`",
    "Send_dispatch": "decision structure of `SocketImpl::Send(data, size, Duration timeout)`",
    "SocketTask_chain": "`Driver::DriverImpl::DoOneSocketTask(received)`: the if / else-if chain applied to socket `i` "
                        "(`revents` = `pfds[i + 1].revents`, `isReceived` = `i == received`)",
    "ServiceOutOfRange": "`CheckServiceNumericOutOfRange`: the condition under which it throws, on `port = std::stoll(serv)`",
}

HEADER = """/- GENERATED by tools/cxx2lean.py from the clang JSON AST of /repo/src on every run - do not edit.

Shallow translations of the library's small pure leaf functions.  The tie theorems at the end of
Props/C07, C06, C10, C13, C01, C12 state that each of them equals the hand-written model function
for all arguments; nothing reachable from Main.lean imports this file.

TRUSTED part of the translator (tools/cxx2lean.py: `Chrono`, `convert`, `wrap_u`, `wrap_s`):
 * a `std::chrono::duration` / `time_point` value is the `Int` count of its own tick period (read
   from the desugared type); `.count()`, `.time_since_epoch()` and `Duration(n)` are the identity;
   `a + b`, `a - b` and comparisons of operands with different periods convert the coarser operand
   to the finer common period by an exact integer multiplication; `duration_cast<To>(x)` is
   `Int.tdiv (x * num) den` (truncation toward zero);
 * signed arithmetic (`int`, `long`, `rep`) is unbounded `Int`: signed overflow is undefined
   behaviour in C++, so the translation is only claimed for executions without it;
 * integral conversions are explicit: to a narrower signed type `Int.bmod x (2^bits)` (two's
   complement wrap), to an unsigned type and all unsigned arithmetic `x % 2^bits`;
 * `std::min` / `std::max` are `min` / `max`; `std::numeric_limits<T>::min/max()` are literals;
   `std::memcmp(..)` is an abstract `Int` input `cmp` (only its sign is used by the callers);
 * fields read through `this` / a parameter and the container queries `.empty()`, `.size()` are
   explicit parameters (unsigned ones of type `Nat`); locals are immutable `let`s;
 * decision functions (`*_dispatch`, `BufferPool_Get`) keep only WHICH path is taken: the
   conditions are translated as above, every path's effect sequence must match a known canonical
   sequence exactly, otherwise the function is untranslatable.
Anything outside the subset yields `-- UNTRANSLATABLE <name>: <reason>` and no definition. -/
namespace SockModel.Gen

/-- `std::find_if(begin(), end(), p) - begin()` on the list of the elements' `when` values -/
def findIfIdx (p : Int → Bool) : List Int → Nat
  | [] => 0
  | x :: xs => if p x then 0 else findIfIdx p xs + 1

/-- `it = begin() + n; while((it != begin()) && p(*std::prev(it))) --it;` then `it - begin()` -/
def backScanIdx (p : Int → Bool) (ws : List Int) : Nat → Nat
  | 0 => 0
  | n + 1 => if p (ws.getD n 0) then backScanIdx p ws n else n + 1

/-- outcome of `BufferPool::Get`; `reuseIdleTop clear`: `clear()` is called on the reused buffer -/
inductive GetChoice where
  | allocateNew
  | throwOutOfBuffers
  | reuseIdleTop (clear : Bool)
  deriving Repr, DecidableEq

/-- what `Driver::DriverImpl::Step` does -/
inductive StepChoice where
  | socketsOnly       -- StepSockets(timeout)
  | todosUnlimited    -- StepSockets(StepTodos(DeadlineUnlimitedTime()))
  | todosZero         -- StepSockets(StepTodos(DeadlineZeroTime()))
  | todosLimited      -- StepSockets(StepTodos(DeadlineLimited(timeout)))
  deriving Repr, DecidableEq

/-- what `Driver::DriverImpl::DoOneSocketTask` does with one socket of its list: a task and `return`, or on to the
next socket -/
inductive TaskChoice where
  | readable          -- sock.DriverOnReadable(); return
  | writable          -- if(sock.DriverOnWritable()) pfd.events &= ~POLLOUT; return
  | error             -- sock.DriverOnError("poll hangup/error"); return
  | next
  deriving Repr, DecidableEq

/-- what `SocketImpl::Send(data, size, timeout)` calls -/
inductive SendChoice where
  | sendAll           -- SendAll(fd, data, size)
  | sendTry           -- SendTry(fd, data, size)
  | sendSomeLimited   -- DeadlineLimited deadline(timeout); SendSome(fd, data, size, deadline)
  deriving Repr, DecidableEq
"""


def translate(repo, stage2=None, stage_tls=None):
    """[(name, ok, lean text or reason)] for the current source tree; when `stage2` is a list, the
    results of the effectful functions (tools/cxx2lean_eff.py) are appended to it"""
    specs = SPECS()
    try:
        hd = _headers_digest(repo)
    except OSError:
        hd = "?"
    jobs = sorted({(s[2], s[3]) for s in specs})
    if stage2 is not None:
        import cxx2lean_eff
        jobs = sorted(set(jobs) | set(cxx2lean_eff.jobs()))
    if stage_tls is not None:
        import cxx2lean_tls
        jobs = sorted(set(jobs) | set(cxx2lean_tls.jobs()))

    def fetch(j):
        try:
            return j, ast_docs(repo, j[0], j[1], hd), None
        except Untranslatable as e:
            return j, None, str(e)
        except Exception as e:   # a broken cache entry, a clang crash, ...
            return j, None, "%s: %s" % (type(e).__name__, e)

    with ThreadPoolExecutor(max_workers=min(16, len(jobs))) as ex:
        asts = {j: (d, err) for j, d, err in ex.map(fetch, jobs)}
    _prune_cache()
    out = []
    for name, lean_ret, src, flt, build in specs:
        docs, err = asts[(src, flt)]
        try:
            if docs is None:
                fail(err)
            t, body = build(repo, docs, src)
            sig = t.signature()
            note = ""
            if t.memcmp_args:
                note = "  [cmp = memcmp(%s)]" % ", ".join(t.memcmp_args)
            text = "/-- src/%s: %s%s -/\ndef %s %s: %s :=\n%s\n" % (
                os.path.basename(t.file or src), WHAT.get(name, name), note,
                name, (sig + " ") if sig else "", lean_ret, body)
            out.append((name, True, text))
        except Untranslatable as e:
            out.append((name, False, str(e)))
        except (KeyError, IndexError, TypeError, ValueError) as e:
            out.append((name, False, "unexpected AST shape (%s: %s)" % (type(e).__name__, e)))
    if stage2 is not None:
        import cxx2lean_eff
        stage2.extend(cxx2lean_eff.translate(repo, [n for n, ok, _ in out if ok], lambda src, flt: asts[(src, flt)]))
    if stage_tls is not None:
        import cxx2lean_tls
        have = [n for n, ok, _ in out if ok] + [n for n, ok, _ in (stage2 or []) if ok]
        stage_tls.extend(cxx2lean_tls.translate(repo, have, lambda src, flt: asts[(src, flt)]))
    return out


def _render(header, results):
    parts = [header]
    for name, ok, text in results:
        if ok:
            parts.append(text)
        else:
            parts.append("-- UNTRANSLATABLE %s: %s\n" % (name, re.sub(r"\s+", " ", text)[:300]))
    parts.append("end SockModel.Gen\n")
    return "\n".join(parts)


def render(repo):
    return _render(HEADER, translate(repo))


def render_both(repo):
    """(text of Generated/Funcs.lean, text of Generated/Loops.lean)"""
    return render_all(repo)[:2]


def render_all(repo):
    """(Generated/Funcs.lean, Generated/Loops.lean, Generated/Tls.lean)"""
    s2, s3 = [], []
    s1 = translate(repo, s2, s3)
    return _render(HEADER, s1), _render(LOOPS_HEADER, s2), _render(TLS_HEADER, s3)


def _write_if_changed(path, txt):
    os.makedirs(os.path.dirname(path), exist_ok=True)
    old = open(path).read() if os.path.exists(path) else None
    if old != txt:
        with open(path, "w") as f:
            f.write(txt)


def write(repo, lean_dir):
    """regenerate Generated/Funcs.lean (stage 1: leaf functions) and Generated/Loops.lean (stage 2: effectful
    functions and loops); written only when the content changed.  Returns the list of untranslatable function names."""
    t1, t2, t3 = render_all(repo)
    _write_if_changed(os.path.join(lean_dir, "SockModel", "Generated", "Funcs.lean"), t1)
    _write_if_changed(os.path.join(lean_dir, "SockModel", "Generated", "Loops.lean"), t2)
    _write_if_changed(os.path.join(lean_dir, "SockModel", "Generated", "Tls.lean"), t3)
    return re.findall(r"^-- UNTRANSLATABLE (\S+):", t1 + t2 + t3, re.M)


LOOPS_HEADER = """/- GENERATED by tools/cxx2lean.py + tools/cxx2lean_eff.py from the clang JSON AST of /repo/src on every run - do not edit.

Stage 2 of the source-derived tie: the library's small EFFECTFUL functions and loops, in an explicit
effect style.  Prelude (hand-written, lean/SockModel/Basic/GenEffects.lean): `M ω α := ω → Res α × ω`
(`Res`: `ok v` | `thrown ⟨class, code⟩` | `halted`), `World ω` with one field per call that leaves the
library.  Imported by Props/C16, C01 (tie theorems at their end) only.

How the text below is obtained (TRUSTED part of the translator, in addition to Generated/Funcs.lean):
 * `DoPoll(pfds, count, ms)` is `W.doPoll ms`, `Interrupted()` is `W.interrupted`, `Clock::now()` is
   `W.clockNow`, `::send(fd, p, n, flags)` is `W.send off n` (off = offset of p from the `data`
   parameter), `::recv(fd, p, n, flags)` is `W.recv n`, `SocketError()` is `W.socketError`; handles and
   buffers that only travel to these calls (`fd`, `pfds`, `count`, `events`, `flags`) are dropped;
 * sequencing is `M.bind` in C++ evaluation order (`&&` / `||` short-circuit; an expression with two
   effectful operands in unspecified order is rejected); `throw X(..)` is `M.throw ⟨.X, code⟩` (message
   dropped; `code` = the `std::error_code` argument of `system_error`, else 0); there is no `catch`;
 * a call of another translated function is a call of its generated definition (same `W`, same `fuel`);
   `ToMsec`, `DeadlineLimited_*` are the stage-1 definitions of Generated/Funcs.lean;
 * locals are `let`s, an assignment introduces a new version of the name; a `DeadlineLimited` object
   is its two fields (constructor = `Clocked_ctor_now` then `DeadlineLimited_deadline`; `Tick()` =
   `Clocked_Tick`, both read from the AST of wait.h); a `std::string_view(p, n)` is (offset, length),
   `remove_prefix(k)` adds k to the offset (precondition k <= size());
 * `Driver::DriverImpl::StepTodos<Deadline>` (one definition per instantiation) runs over `TodoWorld` (prelude):
   `front->when` with `auto &front = todos.front()` is `W.frontWhen`, `todos.pop_front()` after
   `auto task = std::move(front)` is `W.popFront`, `task->what()` is `W.runTask`, `todos.empty()` is `W.todosEmpty`;
   the deadline object is the fields of its flavour, its `Remaining()/TimeLeft()` the stage-1 leaves of that flavour;
 * `SocketAsyncImpl::DriverSend / DriverSendTo` and the enqueue side `Send / SendTo -> DoSend -> DoSendEnqueue` run over
   `QueueWorld` (prelude): `auto &&[promise, buffer(, addr)] = q.front()` names fields of the front element; `q.size()`,
   `q.empty()`, `q.pop()`, `q.emplace(..)`, `buffer->size()`, `buffer->erase(0, n)`, `promise.set_value()`,
   `promise.set_exception(..)`, `buff->sock->SendSome(buffer->data(), n)`, `buff->sock->SendTo(buffer->data(), n,
   addr->ForUdp())`, `buff->sock->DriverPending()`, `driver.lock()`, `ptr->AsyncWantSend(buff->sock->fd)` are its fields;
   `try B catch(X const &) H` is `M.tryCatch .X B H` (B, H yield `some v` on `return v`); the function-level
   `std::lock_guard<std::mutex> lock(sendQMtx)` is `W.lock` and `W.unlock` before every `return`;
 * a `string_view` is its cursor plus the text of its immutable end (length = end - cursor); the fixed arguments of a
   loop are all parameters and all locals it does not change, in declaration order (canonical loop signature);
 * `do B while(c)`, `for(;;) B`, `while(c) B` become `<F>_loop<k>`: structural recursion on a fuel
   counter `n` (`0 => M.halt`), arguments = the locals the loop assigns, `break` / the false condition
   continue with the statements after the loop (inlined), `return` ends the function; the function
   starts the loop with `n := fuel`.  `M.halt` (out of fuel, or the world stopped answering) is not a
   behaviour of the C++ code: the tie theorems give the fuel that suffices.
Anything outside the subset yields `-- UNTRANSLATABLE <name>: <reason>` and no definition. -/
import SockModel.Basic.GenEffects
import SockModel.Generated.Funcs
set_option linter.unusedVariables false
namespace SockModel.Gen
"""


TLS_HEADER = """/- GENERATED by tools/cxx2lean.py + tools/cxx2lean_tls.py from the clang JSON AST of /repo/src/socket_tls_impl.cpp
(parsed with -DSOCKPUPPET_WITH_TLS) on every run - do not edit.

Stage 5 of the source-derived tie: the TLS glue `SocketTlsImpl::*` over `TlsWorld` (prelude Basic/GenEffects.lean).
Imported by Props/C18Tie.lean only.  In addition to the rules of Generated/Loops.lean:
 * the glue's fields are world state: `lastError`, `remainingTime`, `isReadable`, `isWritable`, `driverSendSuppressed`
   are read by `W.get_<field>` and assigned by `W.set_<field> v`; `pendingSend = v` is `W.set_pendingSend off len`;
   `if(pendingError)` is `W.pendingErrorSet`; `std::rethrow_exception(std::exchange(pendingError, nullptr))` is
   `W.rethrowPending`;
 * libssl (`SSL_read`, `SSL_write_ex` with its `*written`, `SSL_get_error`, `SSL_is_init_finished`, `SSL_pending`, `SSL_shutdown`,
   `SslError`) and the socket layer below (`WaitReadable`, `WaitWritable`, `ReceiveNow`, `Receive`, `SendNow`, `SendAll`,
   `SendTry`, `SendSome` with the caller's deadline object) are world calls `W.ssl*` / `W.sock*`; the `SSL_ERROR_*` and
   poll constants appear with their macro values;
 * `UnderDeadline(lambda, remainingTime)` is inlined (the instantiation the call refers to; `fn()` = the lambda's body,
   `timeout` = the field); `switch` with groups that end in return / throw is an `if` chain; `for(init; cond; inc)` is
   `init; while(cond) { body; inc; }`; only the POLLOUT bit of `DriverQuery`'s `events` goes in and comes out as a Bool;
 * `assert`s are skipped: this is the NDEBUG behaviour (`Cfg.asserts = false` of Model/Tls.lean).
Anything outside the subset yields `-- UNTRANSLATABLE <name>: <reason>` and no definition. -/
import SockModel.Basic.GenEffects
import SockModel.Generated.Funcs
import SockModel.Generated.Loops
set_option linter.unusedVariables false
namespace SockModel.Gen
"""


if __name__ == "__main__":
    import sys
    _r = sys.argv[1] if len(sys.argv) > 1 and not sys.argv[1].startswith("-") else os.environ.get("VERIF_REPO", "/repo")
    _t1, _t2, _t3 = render_all(_r)
    print(_t3 if "--tls" in sys.argv else (_t2 if "--loops" in sys.argv else _t1))

#!/usr/bin/env python3
"""Detection smoke test for C14/C17: applies textual mutants to a scratch copy of /repo
(VERIF_REPO=<copy>) and expects the check to exit 1 with a VIOLATION line.
usage: smoke_mutants.py <scratch copy of /repo> [C14|C17 ...]"""
import os, subprocess, sys, shutil
ROOT = os.path.dirname(os.path.dirname(os.path.abspath(__file__)))
copy = sys.argv[1]
only = sys.argv[2:] or ["C14", "C17"]

MUTANTS = [
  ("C14", "recv<0 returns nullopt instead of throwing", "src/socket_impl.cpp",
   "  return {ReceiveNow(fd, data, size)};\n}",
   "  try { return {ReceiveNow(fd, data, size)}; } catch(std::system_error const &) { return {std::nullopt}; }\n}"),
  ("C14", "SocketTcp ctor leaks the descriptor when connect fails", "src/socket.cpp",
   "  impl->SetSockOptNoSigPipe();\n  impl->Connect(connectAddress.impl->ForTcp());\n  impl->SetSockOptNonBlocking();\n}\n\n#ifdef",
   "  impl->SetSockOptNoSigPipe();\n  try { impl->Connect(connectAddress.impl->ForTcp()); } catch(...) { (void)impl.release(); throw; }\n  impl->SetSockOptNonBlocking();\n}\n\n#ifdef"),
  ("C14", "errno read after to_string(addr) clobbered it (bind)", "src/socket_impl.cpp",
   "    auto error = SocketError(); // cache before risking another\n    throw std::system_error(error, \"failed to bind socket to address \" + to_string(bindAddr));",
   "    auto msg = \"failed to bind socket to address \" + to_string(bindAddr);\n    throw std::system_error(SocketError(), msg);"),
  ("C14", "send failure swallowed without touching the promise", "src/socket_async_impl.cpp",
   "      return false;\n    }\n  } catch(std::runtime_error const &e) {\n    promise.set_exception(std::make_exception_ptr(e));\n  }",
   "      return false;\n    }\n  } catch(...) {\n  }"),
  ("C14", "accepted descriptor not checked before use", "src/socket_impl.cpp",
   "  : fd(fd)\n{\n  if(fd == fdInvalid) {\n    throw std::system_error(SocketError(), \"failed to accept socket\");\n  }\n}",
   "  : fd(fd)\n{\n}"),
  ("C14", "async accept leaks the accepted socket when listen fails", "src/socket_async_impl.cpp",
   "    buff->sock->Listen();\n\n    onConnect(",
   "    try { buff->sock->Listen(); } catch(...) { (void)sock.impl.release(); throw; }\n\n    onConnect("),
  ("C14", "driver receive error not routed to the disconnect handler", "src/socket_async_impl.cpp",
   "      onReceive(std::move(buffer));\n    }\n  } catch(std::runtime_error const &e) {\n    onError(e.what());\n  }",
   "      onReceive(std::move(buffer));\n    }\n  } catch(std::runtime_error const &) {\n  }"),
  ("C14", "double close in ~SocketImpl", "src/socket_impl.cpp",
   "  if(fd != fdInvalid) {\n    CloseSocket(fd);\n  }",
   "  if(fd != fdInvalid) {\n    CloseSocket(fd);\n    CloseSocket(fd);\n  }"),
  ("C17", "revert fix F3 (write through pfds.end())", "src/driver_impl.cpp",
   "  if(auto itPfd = std::find_if(begin(pfds), end(pfds), FdEqual{fd}); itPfd != end(pfds)) {\n    itPfd->events |= POLLOUT;\n  }",
   "  auto itPfd = std::find_if(begin(pfds), end(pfds), FdEqual{fd});\n  assert(itPfd != end(pfds));\n  itPfd->events |= POLLOUT;"),
  ("C17", "AsyncUnregister erases from sockets but not from pfds", "src/driver_impl.cpp",
   "  if(auto it = std::find_if(begin(pfds), end(pfds), FdEqual{fd}); it != end(pfds)) {\n    pfds.erase(it);\n  }",
   "  (void)0;"),
  ("C17", "ToDos::Remove erases end()", "src/todo_impl.cpp",
   "  if(it != end()) { // may have already been removed\n    (void)erase(it);\n  }",
   "  (void)erase(it);"),
  ("C17", "driver.lock() dereferenced unchecked in ~SocketAsyncImpl", "src/socket_async_impl.cpp",
   "  if(auto ptr = driver.lock()) {\n    ptr->AsyncUnregister(buff->sock->fd);\n  }\n}\n\nstd::future<void> SocketAsyncImpl::Send(",
   "  driver.lock()->AsyncUnregister(buff->sock->fd);\n}\n\nstd::future<void> SocketAsyncImpl::Send("),
  ("C17", "ToDo::Cancel dereferences driver.lock() unchecked", "src/todo_impl.cpp",
   "  if(auto ptr = driver.lock()) {\n    ptr->ToDoRemove(this);\n  }",
   "  driver.lock()->ToDoRemove(this);"),
  ("C17", "pending sends dropped silently: promises kept alive forever (futures dangle)", "src/socket_async_impl.cpp",
   "SocketAsyncImpl::~SocketAsyncImpl()\n{",
   "SocketAsyncImpl::~SocketAsyncImpl()\n{\n  new std::variant<SendQ, SendToQ>(std::move(sendQ));"),
  ("C17", "failed driver-side send also runs the disconnect handler (use-after-free if it destroys the socket)",
   "src/socket_async_impl.cpp",
   "    promise.set_exception(std::make_exception_ptr(e));\n  }\n  q.pop();\n  return (sendQSize == 1U);",
   "    promise.set_exception(std::make_exception_ptr(e));\n    onError(e.what());\n  }\n  q.pop();\n  return (sendQSize == 1U);"),
  ("C17", "DoOneSocketTask goes on iterating after a handler ran", "src/driver_impl.cpp",
   "    if(pfd.revents & POLLIN) {\n      sock.DriverOnReadable();\n      return;\n    }",
   "    if(pfd.revents & POLLIN) {\n      sock.DriverOnReadable();\n      if(pfd.revents & POLLOUT) { (void)sock.DriverOnWritable(); }\n      return;\n    }"),
]

def run(prop, env):
    r = subprocess.run([os.path.join(ROOT, "check"), prop, "--tier", "quick"], env=env, stdout=subprocess.PIPE,
                       stderr=subprocess.STDOUT, text=True)
    return r.returncode, r.stdout

env = dict(os.environ, VERIF_REPO=copy)
ok = True
for prop in only:
    rc, out = run(prop, env)
    print("%s unmodified copy: exit %d" % (prop, rc))
    ok &= (rc == 0)
for prop, what, path, old, new in MUTANTS:
    if prop not in only:
        continue
    f = os.path.join(copy, path)
    src = open(f).read()
    if src.count(old) != 1:
        print("MUTANT NOT APPLICABLE (%d matches): %s" % (src.count(old), what)); ok = False; continue
    open(f, "w").write(src.replace(old, new))
    try:
        rc, out = run(prop, env)
    finally:
        open(f, "w").write(src)
    viol = [l for l in out.split("\n") if l.startswith("VIOLATION")]
    why = [l for l in out.split("\n") if "failure:" in l]
    print("%s mutant '%s': exit %d %s\n      %s" % (prop, what, rc, "CAUGHT" if rc == 1 and viol else "MISSED", (why or viol or [out[-300:]])[0][:260]))
    ok &= (rc == 1 and bool(viol))
sys.exit(0 if ok else 1)

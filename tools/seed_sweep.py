#!/usr/bin/env python3
"""Apply every stored seeded change (seeded/<id>/patch.diff) to /repo in turn, run the quick check of the
property it breaks (thorough when quick stays silent), undo the change, and write seeded/RESULTS.md.

Developer tool, not a registered check.  /repo must be clean; evidence/ is restored from git afterwards
because the runs against changed code overwrite it (committed evidence must come from /repo itself)."""
import json, os, re, subprocess, sys, time

ROOT = os.path.dirname(os.path.dirname(os.path.abspath(__file__)))
REPO = os.environ.get("VERIF_REPO", "/repo")   # a scratch worktree when run as a parallel worker (see sweep_parallel)

def sh(cmd, **kw):
    return subprocess.run(cmd, shell=True, capture_output=True, text=True, **kw)

HEADER = ("# Seeded changes vs. checks (written by tools/seed_sweep.py; a partial sweep updates its rows only)\n\n"
          "| seed | property | result | first message | s |\n|---|---|---|---|---|\n")


def write_results(path, new_rows):
    """new_rows: list of markdown row strings; rows of seeds not swept this time are kept"""
    rows = {}
    if os.path.exists(path):
        for l in open(path):
            if l.startswith("| C") or l.startswith("| harmless"):
                rows[l.split("|")[1].strip()] = l
    for l in new_rows:
        rows[l.split("|")[1].strip()] = l if l.endswith("\n") else l + "\n"
    with open(path, "w") as f:
        f.write(HEADER)
        f.writelines(rows[k] for k in sorted(rows))


def sweep_parallel(n, only):
    """n workers, each with its own copy of /verif (caches included) and its own worktree of /repo under /tmp/sw"""
    import shutil
    seeds = [d for d in sorted(os.listdir(f"{ROOT}/seeded")) if os.path.exists(f"{ROOT}/seeded/{d}/patch.diff")
             and (not only or any(o in d for o in only))]
    base = os.environ.get("SWEEP_BASE", "/tmp/sw")
    procs = []
    for i in range(n):
        w = f"{base}/w{i}"
        sh(f"git -C /repo worktree remove --force {w}/repo; rm -rf {w}; mkdir -p {w}")
        sh(f"rsync -a --exclude replays {ROOT}/ {w}/verif/; rm -f {w}/verif/seeded/RESULTS.md")
        r = sh(f"git -C /repo worktree add --detach {w}/repo HEAD")
        if r.returncode != 0:
            sys.exit(r.stderr)
        share = seeds[i::n]
        if not share:
            continue
        env = dict(os.environ, VERIF_REPO=f"{w}/repo")
        procs.append((w, subprocess.Popen([sys.executable, f"{w}/verif/tools/seed_sweep.py"] + share, env=env,
                                          stdout=open(f"{w}/log", "w"), stderr=subprocess.STDOUT)))
    rows = []
    for w, p in procs:
        p.wait()
        for l in open(f"{w}/verif/seeded/RESULTS.md"):
            if l.startswith("| C") or l.startswith("| harmless"):
                rows.append(l)
    write_results(f"{ROOT}/seeded/RESULTS.md", rows)
    for i in range(n):
        sh(f"git -C /repo worktree remove --force {base}/w{i}/repo; rm -rf {base}/w{i}")
    missed = [r for r in rows if "MISSED" in r or "ALARM" in r]
    print(f"{len(rows)} seeds, {len(missed)} missed")
    for r in missed:
        print(r.strip())
    return 1 if missed else 0


def main():
    only = sys.argv[1:]
    if only and only[0] == "--workers":
        return sweep_parallel(int(only[1]), only[2:])
    if sh(f"git -C {REPO} status --porcelain --untracked-files=no").stdout.strip():
        sys.exit("/repo has local modifications; refusing")
    rows = []
    for d in sorted(os.listdir(f"{ROOT}/seeded")):
        p = f"{ROOT}/seeded/{d}/patch.diff"
        if not os.path.exists(p) or (only and not any(o in d for o in only)):
            continue
        meta = json.load(open(f"{ROOT}/seeded/{d}/meta.json"))
        prop = meta.get("breaks_property") or d[:3]
        r = sh(f"git -C {REPO} apply {p}")
        if r.returncode != 0:
            rows.append((d, prop, "patch does not apply", "", 0)); continue
        try:
            res = None
            if meta.get("expect") == "silent":
                # a behaviour-preserving rewrite: every quick check must stay silent
                alarms, t0 = [], time.time()
                for q in ["C%02d" % i for i in range(1, 19)]:
                    r = sh(f"./check {q} --tier quick", cwd=ROOT)
                    out = r.stdout + r.stderr
                    v = [l for l in out.splitlines() if l.startswith("VIOLATION")]
                    if r.returncode != 0 or v:
                        nf = all(l.rstrip().endswith("no-failing-input-found") for l in v) if v else False
                        alarms.append(q + ("(no-failing-input-found)" if nf else "(rc=%d)" % r.returncode if not v else "(CONCRETE)"))
                rows.append((d, "all", "silent" if not alarms else "ALARM: " + " ".join(alarms), "", time.time() - t0))
                print(rows[-1], flush=True)
                continue
            for tier in ("quick", "thorough"):
                t0 = time.time()
                r = sh(f"./check {prop} --tier {tier}", cwd=ROOT)
                out = r.stdout + r.stderr
                v = [l for l in out.splitlines() if l.startswith("VIOLATION")]
                if r.returncode != 0 and v:
                    kind = "no-failing-input-found" if all(l.rstrip().endswith("no-failing-input-found") for l in v) else "concrete replay"
                    msg = ""
                    m = re.search(r"replay=(\S+)", v[0])
                    if m and os.path.exists(m.group(1)):
                        for l in open(m.group(1), errors="replace"):
                            if l.startswith("verdict:") or l.startswith("broken:"):
                                msg = l.strip()[:200]; break
                    res = (d, prop, f"caught by {tier} ({kind})", msg, time.time() - t0); break
            rows.append(res or (d, prop, "MISSED", "", 0))
        finally:
            sh(f"git -C {REPO} checkout -- .")
        print(rows[-1], flush=True)
    if REPO == "/repo":
        sh("git checkout -- evidence", cwd=ROOT)
    write_results(f"{ROOT}/seeded/RESULTS.md",
                  [f"| {d} | {prop} | {res} | {msg.replace('|', '/')} | {t:.0f} |\n" for d, prop, res, msg, t in rows])
    missed = [r for r in rows if r[2] == "MISSED" or r[2].startswith("ALARM")]
    print(f"{len(rows)} seeds, {len(missed)} missed / false alarms")
    return 1 if missed else 0

if __name__ == "__main__":
    sys.exit(main())

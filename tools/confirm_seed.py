#!/usr/bin/env python3
"""Lead-side confirmation of an independently written change (developer tool, not a check).

  confirm_seed.py <dir with patch.diff, demo.cpp, meta.json> <name> [--expect-harmless]

In a scratch git worktree of /repo HEAD under /tmp/cf/<name> (removed afterwards): the demo is built and run on the
unchanged tree (must exit 0), the patch is applied, the library + its test suite are built with the repo's CMake
and run with ctest (must pass), the demo is rebuilt and run (must exit non-zero).  Prints one JSON line."""
import json, os, re, subprocess, sys, shutil


def sh(cmd, cwd=None, timeout=1800):
    try:
        r = subprocess.run(cmd, shell=True, cwd=cwd, stdout=subprocess.PIPE, stderr=subprocess.STDOUT, text=True, timeout=timeout)
        return r.returncode, r.stdout
    except subprocess.TimeoutExpired as e:
        return 124, (e.stdout or "") if isinstance(e.stdout, str) else "timeout"


def main():
    src, name = sys.argv[1], sys.argv[2]
    harmless = "--expect-harmless" in sys.argv
    base = "/tmp/cf/" + name
    sh("git -C /repo worktree remove --force %s/repo; rm -rf %s; mkdir -p %s" % (base, base, base))
    rc, out = sh("git -C /repo worktree add --detach %s/repo HEAD" % base)
    res = dict(name=name, applies=False)
    try:
        if rc != 0:
            res["error"] = out[-300:]; return res
        demo = os.path.join(src, "demo.cpp")
        flags = ""
        certdir = None
        if os.path.exists(demo):
            head = "".join(open(demo, errors="replace").readlines()[:40])
            if "SOCKPUPPET_WITH_TLS" in head:
                flags += " -DSOCKPUPPET_WITH_TLS"
            if "-DNDEBUG" in head:
                flags += " -DNDEBUG"
            if "-fsanitize=address" in head:
                flags += " -fsanitize=address -fno-omit-frame-pointer"
            m = re.search(r"(/tmp/seed/\w+)/certs", open(demo, errors="replace").read())
            if m:
                certdir = m.group(1) + "/certs"
            if certdir is None and "WITH_TLS" in flags:
                certdir = "/verif/harness/certs"   # demos that look for certs/ relative to their cwd take the directory as argv[1]
            shutil.copy(demo, base + "/demo.cpp")
            for f in os.listdir(src):          # helper headers / sources the demo includes
                if f.endswith((".h", ".hpp")) or (f.endswith(".cpp") and f != "demo.cpp"):
                    shutil.copy(os.path.join(src, f), base + "/" + f)
        libs = " -lssl -lcrypto" if "WITH_TLS" in flags else ""
        if os.path.exists(demo) and "-ldl" in "".join(open(demo, errors="replace").readlines()[:40]):
            libs += " -ldl"

        def build_demo(tag):
            return sh("g++ -std=c++17 -O1 -g%s -I repo/include -I repo/src demo.cpp repo/src/*.cpp%s -pthread -o demo_%s" % (flags, libs, tag), cwd=base)

        def run_demo(tag, n=2):
            codes = []
            for _ in range(n):
                # TLS demos find the committed test certificate as certs/test_cert.pem, certs/test_key.pem in their cwd
                if not os.path.exists(base + "/certs"):
                    os.symlink("/verif/harness/certs", base + "/certs")
                rc, out = sh("./demo_%s" % tag, cwd=base, timeout=180)
                codes.append(rc)
            return codes

        if os.path.exists(demo):
            rc, out = build_demo("clean")
            if rc != 0:
                res["error"] = "demo does not build on clean tree: " + out[-400:]; return res
            res["demo_without_change"] = run_demo("clean")
        rc, out = sh("git apply %s" % os.path.join(os.path.abspath(src), "patch.diff"), cwd=base + "/repo")
        res["applies"] = rc == 0
        if rc != 0:
            res["error"] = out[-300:]; return res
        rc, out = sh("cmake -G Ninja -B _build -S . -DCMAKE_BUILD_TYPE=RelWithDebInfo > /dev/null && cmake --build _build -j4 2>&1 | tail -3", cwd=base + "/repo")
        res["compiles"] = rc == 0
        if rc != 0:
            res["error"] = out[-400:]; return res
        rc, out = sh("ctest --test-dir _build/test -j4 --timeout 900 2>&1 | tail -4", cwd=base + "/repo", timeout=3600)
        res["ctest_rc"] = rc
        res["ctest"] = " ".join(out.split())[-160:]
        rc, out = sh("g++ -std=c++17 -fsyntax-only -DSOCKPUPPET_WITH_TLS -Iinclude -Isrc src/socket_tls_impl.cpp", cwd=base + "/repo")
        res["tls_compiles"] = rc == 0
        if os.path.exists(demo):
            rc, out = build_demo("changed")
            if rc != 0:
                res["error"] = "demo does not build with change: " + out[-400:]; return res
            res["demo_with_change"] = run_demo("changed")
        ok_demo = (not os.path.exists(demo)) or (all(c == 0 for c in res["demo_without_change"]) and all(c != 0 for c in res["demo_with_change"]))
        res["confirmed"] = bool(res["compiles"] and res["tls_compiles"] and res["ctest_rc"] == 0 and (harmless or ok_demo))
        return res
    finally:
        sh("git -C /repo worktree remove --force %s/repo; rm -rf %s" % (base, base))


if __name__ == "__main__":
    print(json.dumps(main()))

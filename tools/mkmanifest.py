#!/usr/bin/env python3
"""Regenerates MANIFEST.json from the per-property modules (props/cXX.py: LEVEL_TEXT, LEVEL_NOTE, TECHNIQUE)."""
import importlib, json, os, sys
ROOT = os.path.dirname(os.path.dirname(os.path.abspath(__file__)))
sys.path.insert(0, ROOT); sys.path.insert(0, os.path.join(ROOT, "tools"))
ALL = ["C%02d" % i for i in range(1, 19)]
checks, na = [], []
for p in ALL:
    try:
        m = importlib.import_module("props." + p.lower())
    except ModuleNotFoundError:
        na.append({"property_id": p, "reason": "not yet built in this commit (planned, see DESIGN.md section 5)"})
        continue
    checks.append({
        "property_id": p,
        "quick_cmd": "./check %s --tier quick" % p,
        "thorough_cmd": "./check %s --tier thorough" % p,
        "evidence_file": "/verif/evidence/%s.json" % p,
        "replay_cmd_template": "./check %s --replay {path}" % p,
        "engine": "lean-model+vos",
        "level_claimed": {"category": "proof", "text": m.LEVEL_TEXT, "design_ref": "DESIGN.md section 5, " + p},
        "level_note": m.LEVEL_NOTE,
        "technique": m.TECHNIQUE,
    })
# hooks_commits.txt: lines "hook <sha> ..." are guarded instrumentation commits (none so far); lines "fix <sha> ..." are
# unguarded repairs of genuine defects (recorded in known_findings.json, NOT hooks: they are not add-only by nature)
hooks_commits, fix_commits = [], []
hc = os.path.join(ROOT, "hooks_commits.txt")
if os.path.exists(hc):
    for l in open(hc):
        w = l.split()
        if len(w) >= 2 and w[0] == "hook":
            hooks_commits.append(w[1])
        elif len(w) >= 2 and w[0] == "fix":
            fix_commits.append(w[1])
man = {
    "version": 1,
    "setup_cmd": "./setup.sh",
    "hooks": {
        "guard": "SOCKPUPPET_VERIF",
        "enable": "checks compile /repo/src/*.cpp themselves (tools/vlib.py build_impl) and add -DSOCKPUPPET_VERIF; no source hook is needed so far: all observation and perturbation is by link-time interposition at the libc boundary from the harness executable",
        "baseline_off_cmd": "cmake -S /repo -B /repo/_build -G Ninja && cmake --build /repo/_build && ctest --test-dir /repo/_build/test -j8 --timeout 900",
        "source_commits": hooks_commits,
        "add_only": True,
    },
    "engines": [{
        "name": "lean-model+vos", "path": "/verif/check",
        "serves_properties": [c["property_id"] for c in checks],
        "kind_free_text": "Lean 4 model + theorems (lean/SockModel), re-audited on every run; C++ scenario harness linked against /repo/src of the current tree with a link-time virtual-OS shim; transcripts piped through the Lean driver (correspondence + property predicate on the implementation trace)",
    }],
    "checks": checks,
    "not_applicable": na,
    "notes": "See DESIGN.md. Every check: exit 0 = held, exit 1 + VIOLATION line, exit 2 = infrastructure error (e.g. /repo does not compile). "
             "No hook commits exist in /repo (hooks.source_commits is empty: all instrumentation is link-time interposition from the harness). "
             "Unguarded repairs of genuine defects ('fix:' commits, listed as fixed in known_findings.json): " + ", ".join(fix_commits) + ".",
}
json.dump(man, open(os.path.join(ROOT, "MANIFEST.json"), "w"), indent=1)
print("checks:", [c["property_id"] for c in checks], "n/a:", len(na))

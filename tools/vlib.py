"""Shared machinery of the /verif checks: building the Lean model and the
implementation under test, running harness + model, audit, evidence, replays.

Everything is derived from this file's location; nothing under /tmp is needed.
"""
import fcntl, glob, hashlib, json, os, re, shutil, subprocess, sys, time

ROOT = os.path.dirname(os.path.dirname(os.path.abspath(__file__)))
REPO = os.environ.get("VERIF_REPO", "/repo")
LEAN = os.path.join(ROOT, "lean")
BUILD = os.path.join(ROOT, "build")
EVID = os.path.join(ROOT, "evidence")
REPLAYS = os.path.join(ROOT, "replays")
HARNESS = os.path.join(ROOT, "harness")
NCPU = os.cpu_count() or 4
GUARD = "SOCKPUPPET_VERIF"

ALLOWED_AXIOMS = {"propext", "Quot.sound", "Classical.choice"}
FORBIDDEN = re.compile(r"\b(sorry|admit|native_decide|bv_decide|implemented_by|unsafe)\b|^\s*axiom\s|maxHeartbeats\s+0")


def log(*a):
    print(*a, file=sys.stderr, flush=True)


class Lock:
    def __init__(self, name):
        os.makedirs(BUILD, exist_ok=True)
        self.path = os.path.join(BUILD, name + ".lock")

    def __enter__(self):
        self.f = open(self.path, "w")
        fcntl.flock(self.f, fcntl.LOCK_EX)
        return self

    def __exit__(self, *a):
        fcntl.flock(self.f, fcntl.LOCK_UN)
        self.f.close()


def sh(cmd, **kw):
    return subprocess.run(cmd, stdout=subprocess.PIPE, stderr=subprocess.STDOUT, text=True, **kw)


# --------------------------------------------------------------------------
# Lean: build, audit
# --------------------------------------------------------------------------

def gen_consts():
    """Regenerate lean/SockModel/Generated/Consts.lean from /repo/src (constants the
    model depends on).  Written only when the content changes (keeps lake incremental)."""
    import extract_consts
    txt = extract_consts.render(REPO)
    path = os.path.join(LEAN, "SockModel", "Generated", "Consts.lean")
    os.makedirs(os.path.dirname(path), exist_ok=True)
    old = open(path).read() if os.path.exists(path) else None
    if old != txt:
        with open(path, "w") as f:
            f.write(txt)
    # source-derived tie (DESIGN.md §0.7): shallow Lean translations of the library's leaf functions from
    # the clang AST of the current tree -> Generated/Funcs.lean (imported by the Props files only)
    import cxx2lean
    global UNTRANSLATABLE
    UNTRANSLATABLE = cxx2lean.write(REPO, LEAN)
    return extract_consts.extract(REPO)


UNTRANSLATABLE = []


def lean_build(targets=None):
    """lake build: everything (library + sockmodel exe) without argument, else only the given
    targets (e.g. ["SockModel.Props.C07", "sockmodel"]).  Returns (ok, output)."""
    with Lock("lean"):
        gen_consts()
        r = sh(["lake", "build"] + list(targets or []), cwd=LEAN)
        return r.returncode == 0, r.stdout


def lean_build_with_committed_consts():
    """When the theorems no longer check against the constants extracted from the current /repo (a proof
    obligation broke), build the driver with the committed constants instead, so that the implementation
    can still be run and searched for a concrete failing input."""
    path = os.path.join(LEAN, "SockModel", "Generated", "Consts.lean")
    r = sh(["git", "show", "HEAD:lean/SockModel/Generated/Consts.lean"], cwd=ROOT)
    if r.returncode != 0:
        return False
    with Lock("lean"):
        cur = open(path).read() if os.path.exists(path) else ""
        if cur == r.stdout:
            return False
        with open(path, "w") as f:
            f.write(r.stdout)
        b = sh(["lake", "build", "sockmodel"], cwd=LEAN)
        return b.returncode == 0


def sockmodel_exe():
    return os.path.join(LEAN, ".lake", "build", "bin", "sockmodel")


def strip_comments(src):
    # remove /- ... -/ (nested not handled beyond one level, fine for our files) and -- comments
    out = []
    depth = 0
    i = 0
    while i < len(src):
        if src.startswith("/-", i):
            depth += 1; i += 2; continue
        if src.startswith("-/", i) and depth > 0:
            depth -= 1; i += 2; continue
        if depth == 0:
            if src.startswith("--", i):
                j = src.find("\n", i)
                i = len(src) if j < 0 else j
                continue
            out.append(src[i])
        elif src[i] == "\n":
            out.append("\n")
        i += 1
    return "".join(out)


def lean_sources():
    return sorted(glob.glob(os.path.join(LEAN, "SockModel", "**", "*.lean"), recursive=True)) + \
        [os.path.join(LEAN, "Main.lean"), os.path.join(LEAN, "SockModel.lean")]


def forbidden_hits():
    hits = []
    for f in lean_sources():
        code = strip_comments(open(f).read())
        for n, line in enumerate(code.split("\n"), 1):
            if FORBIDDEN.search(line):
                hits.append("%s:%d: %s" % (os.path.relpath(f, LEAN), n, line.strip()))
    return hits


# tie modules of OTHER properties that a property's check audits as well: the TLS glue's ties (HandleError / BioRead /
# BioWrite / Receive / Send with their budget arithmetic) implement C07's timeout semantics for TLS sockets
EXTRA_TIE_MODULES = {"C07": ["C18Tie"]}


def _tie_files(prop):
    out = []
    for t in [prop + "Tie"] + EXTRA_TIE_MODULES.get(prop, []):
        if os.path.exists(os.path.join(LEAN, "SockModel", "Props", t + ".lean")):
            out.append(t)
    return out


def prop_modules(prop):
    """the Lean modules that hold the theorems of a property: Props/<prop>.lean and, when it exists,
    Props/<prop>Tie.lean (source-derived ties kept in a file of their own, DESIGN.md 0.7.4)"""
    return ["SockModel.Props.%s" % prop] + ["SockModel.Props.%s" % t for t in _tie_files(prop)]


def prop_theorems(prop):
    """names (fully qualified) of the theorems in Props/<prop>.lean (and Props/<prop>Tie.lean)"""
    names = _file_theorems(prop)
    for t in _tie_files(prop):
        names += _file_theorems(t)
    return names


def _file_theorems(prop):
    path = os.path.join(LEAN, "SockModel", "Props", prop + ".lean")
    code = strip_comments(open(path).read())
    names = []
    ns = []
    for line in code.split("\n"):
        m = re.match(r"\s*namespace\s+(\S+)", line)
        if m:
            ns.append(m.group(1)); continue
        m = re.match(r"\s*end\s+(\S+)", line)
        if m and ns and ns[-1] == m.group(1):
            ns.pop(); continue
        m = re.match(r"\s*(?:@\[[^\]]*\]\s*)?(?:private\s+|protected\s+)?theorem\s+(\S+)", line)
        if m:
            names.append(".".join(ns + [m.group(1)]))
    return names


def broken_theorems(prop, out):
    """names of the theorems that enclose the error positions of a lake output: those of Props/<prop>.lean, and
    (qualified `Cyy:name`) those of another Props file it imports (C01 imports the tie of `Wait` from C16)"""
    names = []
    for f in sorted({m.group(1) for m in re.finditer(r"error: \S*Props/(C\d+(?:Tie)?)\.lean:\d+:\d+", out)},
                    key=lambda x: (x not in (prop, prop + "Tie"), x)):
        path = os.path.join(LEAN, "SockModel", "Props", f + ".lean")
        try:
            lines = strip_comments(open(path).read()).split("\n")
        except OSError:
            continue
        starts = []
        for i, line in enumerate(lines, 1):
            m = re.match(r"\s*(?:@\[[^\]]*\]\s*)?(?:private\s+|protected\s+)?(theorem|def|example|instance|abbrev|lemma|macro)\b\s*(\S*)", line)
            if m:
                starts.append((i, m.group(1), m.group(2)))
        for m in re.finditer(r"error: \S*Props/%s\.lean:(\d+):\d+" % re.escape(f), out):
            ln = int(m.group(1))
            cur = None
            for i, kind, name in starts:
                if i <= ln:
                    cur = (kind, name)
            if cur and cur[0] == "theorem":
                nm = cur[1] if f in (prop, prop + "Tie") else "%s:%s" % (f, cur[1])
                if nm not in names:
                    names.append(nm)
    return names


def lean_audit(prop):
    """Build what the property needs (`lake build SockModel.Props.<prop> sockmodel`), grep for forbidden
    constructs, #print axioms of every theorem of Props/<prop>.lean.
    Returns dict(ok, obligations, discharged, theorems, problems, axioms).
    A problem text starting with "lake build failed" means the driver executable itself does not build;
    when only Props/<prop>.lean is broken (e.g. a tie theorem against Generated/Funcs.lean) the problem
    names the broken theorems and the caller can go on to run the implementation."""
    ok, out = lean_build(prop_modules(prop) + ["sockmodel"])
    res = dict(ok=False, obligations=0, discharged=0, theorems=[], problems=[], axioms={})
    names = prop_theorems(prop)
    res["theorems"] = names
    res["obligations"] = len(names)
    if not ok:
        errs = [l for l in out.split("\n") if "error" in l][:20]
        ok_exe, _ = lean_build(["sockmodel"])
        if ok_exe:
            broken = broken_theorems(prop, out)
            res["broken"] = broken
            res["problems"].append("proof obligation broken: SockModel/Props/%s.lean does not check against the current "
                                   "tree (theorems: %s)%s: %s" % (
                                       prop, ", ".join(broken) or "?",
                                       ("; untranslatable C++ functions: " + ", ".join(UNTRANSLATABLE)) if UNTRANSLATABLE else "",
                                       " | ".join(errs)))
        else:
            res["problems"].append("lake build failed: " + " | ".join(errs))
        return res
    hits = forbidden_hits()
    if hits:
        res["problems"].append("forbidden constructs: " + "; ".join(hits[:10]))
    audit = os.path.join(LEAN, "Audit_%s_%d.lean" % (prop, os.getpid()))
    with open(audit, "w") as f:
        for m in prop_modules(prop):
            f.write("import %s\n" % m)
        for n in names:
            f.write("#print axioms %s\n" % n)
    try:
        r = sh(["lake", "env", "lean", audit], cwd=LEAN)
    finally:
        os.unlink(audit)
    text = r.stdout
    # parse: "'name' depends on axioms: [a, b]" or "'name' does not depend on any axioms"
    axioms = {}
    # (theorem names may themselves end in apostrophes: match up to the LAST quote before the fixed phrase)
    flat = text.replace("\n", " ")
    for m in re.finditer(r"'(\S+?)' depends on axioms: \[([^\]]*)\]", flat):
        axioms[m.group(1)] = [a.strip() for a in m.group(2).split(",") if a.strip()]
    for m in re.finditer(r"'(\S+?)' does not depend on any axioms", flat):
        axioms[m.group(1)] = []
    res["axioms"] = axioms
    good = 0
    for n in names:
        if n not in axioms:
            res["problems"].append("theorem %s: no axiom report (%s)" % (n, text.strip()[:200]))
            continue
        bad = [a for a in axioms[n] if a not in ALLOWED_AXIOMS]
        if bad:
            res["problems"].append("theorem %s depends on disallowed axioms %s" % (n, bad))
        else:
            good += 1
    res["discharged"] = good if not hits else 0
    res["ok"] = (not res["problems"]) and good == len(names) and len(names) > 0
    return res


def leanchecker(prop):
    r = sh(["lake", "env", "leanchecker"] + prop_modules(prop), cwd=LEAN)
    return r.returncode == 0, r.stdout[-2000:]


def run_model(mode, text, timeout=600):
    """pipe a transcript through the Lean driver; returns list of output lines"""
    r = subprocess.run([sockmodel_exe(), mode], input=text, stdout=subprocess.PIPE,
                       stderr=subprocess.PIPE, text=True, timeout=timeout)
    if r.returncode != 0:
        raise RuntimeError("sockmodel %s failed: %s" % (mode, r.stderr[-2000:]))
    return r.stdout.split("\n")


# --------------------------------------------------------------------------
# implementation under test + harness
# --------------------------------------------------------------------------

FLAVOURS = {
    # asserts on, sanitizers on
    "asan": ["-O1", "-g", "-fsanitize=address,undefined", "-fno-sanitize-recover=all",
             "-fno-omit-frame-pointer", "-D_GLIBCXX_ASSERTIONS"],
    # the shipped configuration (asserts off)
    "ndebug": ["-O2", "-g", "-DNDEBUG"],
    "plain": ["-O1", "-g"],
    "tsan": ["-O1", "-g", "-fsanitize=thread"],
    "tls": ["-O1", "-g", "-fsanitize=address,undefined", "-fno-sanitize-recover=all",
            "-fno-omit-frame-pointer", "-D_GLIBCXX_ASSERTIONS", "-DSOCKPUPPET_WITH_TLS"],
    "tlsplain": ["-O1", "-g", "-DSOCKPUPPET_WITH_TLS"],
    # C17: as "asan" plus libstdc++'s vector annotations (writes inside capacity but past size() are reported)
    "asanvec": ["-O1", "-g", "-fsanitize=address,undefined", "-fno-sanitize-recover=all",
                "-fno-omit-frame-pointer", "-D_GLIBCXX_ASSERTIONS", "-D_GLIBCXX_SANITIZE_VECTOR"],
    # C17: the shipped configuration (asserts off) under the sanitizers
    "ndebugasan": ["-O1", "-g", "-DNDEBUG", "-fsanitize=address,undefined", "-fno-sanitize-recover=all",
                   "-fno-omit-frame-pointer", "-D_GLIBCXX_SANITIZE_VECTOR"],
}
CXX = ["g++", "-std=c++17", "-pthread", "-D" + GUARD]


def _hash_files(paths, extra=""):
    h = hashlib.sha256()
    h.update(extra.encode())
    for p in sorted(paths):
        h.update(p.encode())
        with open(p, "rb") as f:
            h.update(f.read())
    return h.hexdigest()[:20]


def repo_sources():
    return sorted(glob.glob(os.path.join(REPO, "src", "*.cpp")))


def repo_all_files():
    return sorted(glob.glob(os.path.join(REPO, "src", "*")) + glob.glob(os.path.join(REPO, "include", "sockpuppet", "*")))


def repo_tree_hash():
    return _hash_files(repo_all_files())


def _prune(kind, keep=4):
    ds = sorted(glob.glob(os.path.join(BUILD, kind + "-*")), key=os.path.getmtime, reverse=True)
    for d in ds[keep:]:
        shutil.rmtree(d, ignore_errors=True)


def build_impl(flavour):
    """compile /repo/src/*.cpp of the current working tree; returns path of libsp.a"""
    flags = FLAVOURS[flavour]
    key = _hash_files(repo_all_files(), " ".join(CXX + flags))
    d = os.path.join(BUILD, "impl-%s-%s" % (flavour, key))
    lib = os.path.join(d, "libsp.a")
    with Lock("impl-" + flavour):
        if os.path.exists(lib):
            os.utime(d)
            return lib
        shutil.rmtree(d, ignore_errors=True)
        os.makedirs(d)
        procs = []
        objs = []
        for src in repo_sources():
            obj = os.path.join(d, os.path.basename(src)[:-4] + ".o")
            objs.append(obj)
            cmd = CXX + flags + ["-I" + os.path.join(REPO, "include"), "-I" + os.path.join(REPO, "src"),
                                 "-c", src, "-o", obj]
            procs.append((src, subprocess.Popen(cmd, stdout=subprocess.PIPE, stderr=subprocess.STDOUT, text=True)))
        errs = []
        for src, p in procs:
            out, _ = p.communicate()
            if p.returncode != 0:
                errs.append("%s:\n%s" % (src, out[-3000:]))
        if errs:
            shutil.rmtree(d, ignore_errors=True)
            raise BuildError("implementation does not compile (%s):\n%s" % (flavour, "\n".join(errs)))
        r = sh(["ar", "rcs", lib] + objs)
        if r.returncode != 0:
            raise BuildError(r.stdout)
        _prune("impl-" + flavour)
        return lib


class BuildError(Exception):
    pass


def build_harness(name, flavour, sources, libs=()):
    """compile harness sources (relative to /verif/harness) against the impl lib"""
    lib = build_impl(flavour)
    flags = FLAVOURS[flavour]
    srcs = [os.path.join(HARNESS, s) for s in sources]
    hdrs = glob.glob(os.path.join(HARNESS, "**", "*.h"), recursive=True)
    key = _hash_files(srcs + hdrs + [lib], " ".join(CXX + flags + list(libs)))
    d = os.path.join(BUILD, "har-%s-%s-%s" % (name, flavour, key))
    exe = os.path.join(d, name)
    with Lock("har-%s-%s" % (name, flavour)):
        if os.path.exists(exe):
            os.utime(d)
            return exe
        shutil.rmtree(d, ignore_errors=True)
        os.makedirs(d)
        procs = []
        objs = []
        for s in srcs:
            obj = os.path.join(d, os.path.basename(s).replace(".cpp", ".o"))
            objs.append(obj)
            cmd = CXX + flags + ["-I" + os.path.join(REPO, "include"), "-I" + os.path.join(REPO, "src"),
                                 "-I" + HARNESS, "-c", s, "-o", obj]
            procs.append((s, subprocess.Popen(cmd, stdout=subprocess.PIPE, stderr=subprocess.STDOUT, text=True)))
        errs = []
        for s, p in procs:
            out, _ = p.communicate()
            if p.returncode != 0:
                errs.append("%s:\n%s" % (s, out[-3000:]))
        if errs:
            shutil.rmtree(d, ignore_errors=True)
            raise BuildError("harness %s does not compile against the current tree:\n%s" % (name, "\n".join(errs)))
        cmd = CXX + flags + objs + [lib, "-ldl"] + list(libs) + ["-o", exe]
        r = sh(cmd)
        if r.returncode != 0:
            shutil.rmtree(d, ignore_errors=True)
            raise BuildError("harness %s does not link:\n%s" % (name, r.stdout[-3000:]))
        _prune("har-%s-%s" % (name, flavour), keep=2)
        return exe


ASAN_ENV = {"ASAN_OPTIONS": "detect_leaks=0:abort_on_error=0:exitcode=99:allocator_may_return_null=1",
            "UBSAN_OPTIONS": "print_stacktrace=1:halt_on_error=1:exitcode=98"}


def run_cases(exe, cases, timeout_per_case=20, env=None, jobs=None, args=()):
    """cases: list of (case_id, [op lines]).  The harness reads 'case <id>' blocks from stdin,
    and prints for each the transcript block 'case <id>' ... 'end <id>'.  A harness that dies
    mid-case yields a synthetic 'crash' line for that case and is restarted on the rest.
    Returns dict case_id -> list of transcript lines (ops echoed + '-> obs' lines)."""
    jobs = jobs or NCPU
    chunks = [cases[i::jobs] for i in range(jobs)]
    chunks = [c for c in chunks if c]
    e = dict(os.environ)
    e.update(ASAN_ENV)
    if env:
        e.update(env)
    results = {}

    def feed(chunk):
        return "".join("case %s\n%s\nend %s\n" % (cid, "\n".join(ops), cid) for cid, ops in chunk)

    def run_chunk(chunk):
        out = {}
        pending = list(chunk)
        while pending:
            try:
                r = subprocess.run([exe] + list(args), input=feed(pending), stdout=subprocess.PIPE,
                                   stderr=subprocess.PIPE, text=True, env=e,
                                   timeout=timeout_per_case * len(pending) + 30, errors="replace")
                rc, so, se = r.returncode, r.stdout, r.stderr
            except subprocess.TimeoutExpired as ex:
                rc = -999
                so = ex.stdout.decode(errors="replace") if isinstance(ex.stdout, bytes) else (ex.stdout or "")
                se = "timeout"
            cur = None
            done = set()
            buf = {}
            for line in so.split("\n"):
                if line.startswith("case "):
                    cur = line[5:].strip(); buf[cur] = []
                elif line.startswith("end ") and cur is not None:
                    done.add(cur); cur = None
                elif cur is not None:
                    buf[cur].append(line)
            for cid in done:
                out[cid] = buf[cid]
            rest = [(cid, ops) for cid, ops in pending if cid not in done]
            if not rest:
                break
            # the first not-done case is the one that killed (or hung) the harness - unless it never
            # started (the process left after finishing the previous case, e.g. an abandoned deadlock)
            if rest[0][0] not in buf and rc != -999 and len(rest) < len(pending):
                pending = rest
                continue
            cid, ops = rest[0]
            what = "hang" if rc == -999 else ("exit=%d" % rc)
            tail = " ".join(se.strip().split("\n")[-12:])[-1500:]
            summary = ""
            m = re.search(r"(ERROR: AddressSanitizer: [^\n]*|runtime error: [^\n]*|Assertion [^\n]*failed[^\n]*|terminate called[^\n]*)", se)
            if m:
                summary = m.group(1)
            out[cid] = buf.get(cid, []) + ["-> crash %s %s" % (what, summary or tail[-300:])]
            pending = rest[1:]
        return out

    from concurrent.futures import ThreadPoolExecutor
    with ThreadPoolExecutor(max_workers=len(chunks) or 1) as ex:
        for out in ex.map(run_chunk, chunks):
            results.update(out)
    return results


def transcript_text(cases, results):
    parts = []
    for cid, _ops in cases:
        parts.append("case %s" % cid)
        parts.extend(results.get(cid, ["-> crash missing"]))
        parts.append("end %s" % cid)
    return "\n".join(parts) + "\n"


def parse_verdicts(lines):
    """model driver output: 'case <id> ok [tags...]' | 'case <id> FAIL <corr|spec> <msg>'"""
    v = {}
    for l in lines:
        w = l.split(" ", 3)
        if len(w) >= 3 and w[0] == "case":
            if w[2] == "ok":
                v[w[1]] = ("ok", "", l.split(" ")[3:])
            elif w[2] == "FAIL":
                rest = l.split(" ", 4)
                v[w[1]] = ("FAIL", rest[3] if len(rest) > 3 else "?", rest[4] if len(rest) > 4 else "")
    return v


# --------------------------------------------------------------------------
# evidence / replays / known findings
# --------------------------------------------------------------------------

def write_evidence(prop, tier, seed, coverage, assumptions, wall, violations):
    os.makedirs(EVID, exist_ok=True)
    ev = dict(property_id=prop, tier=tier, seed=seed, level="proof", coverage=coverage,
              assumptions=assumptions, wall_s=round(wall, 2), violations=violations)
    with open(os.path.join(EVID, prop + ".json"), "w") as f:
        json.dump(ev, f, indent=1, sort_keys=True)
        f.write("\n")


def write_replay(prop, name, content):
    d = os.path.join(REPLAYS, prop)
    os.makedirs(d, exist_ok=True)
    path = os.path.join(d, name)
    with open(path, "w") as f:
        f.write(content)
    return path


def known_findings(prop):
    path = os.path.join(ROOT, "known_findings.json")
    if not os.path.exists(path):
        return []
    data = json.load(open(path))
    return [k for k in data.get("open", []) if k.get("property") == prop]


def ddmin(ops, fails, max_runs=200):
    """delta-debugging on a list of op lines; fails(ops)->bool"""
    runs = 0
    n = 2
    cur = list(ops)
    while len(cur) >= 2 and runs < max_runs:
        chunk = max(1, len(cur) // n)
        reduced = False
        for i in range(0, len(cur), chunk):
            cand = cur[:i] + cur[i + chunk:]
            runs += 1
            if cand and fails(cand):
                cur = cand
                n = max(n - 1, 2)
                reduced = True
                break
            if runs >= max_runs:
                break
        if not reduced:
            if chunk == 1:
                break
            n = min(n * 2, len(cur))
    return cur

// Shared plumbing for the scenario interpreters: read "case <id>" blocks of op
// lines from stdin, call the scenario's handler, echo ops and observations.
#pragma once
#include <cstdio>
#include <cstdlib>
#include <functional>
#include <iostream>
#include <sstream>
#include <string>
#include <vector>

namespace har {

inline std::vector<std::string> words(std::string const &line)
{
  std::istringstream iss(line);
  std::vector<std::string> w;
  std::string s;
  while(iss >> s) w.push_back(s);
  return w;
}

inline void out(std::string const &s)
{
  std::fputs(s.c_str(), stdout);
  std::fputc('\n', stdout);
  std::fflush(stdout);
}

inline void obs(std::string const &s) { out("-> " + s); }

inline std::string hex(std::string const &bytes)
{
  static char const *d = "0123456789abcdef";
  if(bytes.empty()) return "-";
  std::string r;
  for(unsigned char c : bytes) { r.push_back(d[c >> 4]); r.push_back(d[c & 15]); }
  return r;
}

inline std::string unhex(std::string const &h)
{
  if(h == "-") return {};
  std::string r;
  auto v = [](char c) { return (c >= 'a') ? (c - 'a' + 10) : (c - '0'); };
  for(size_t i = 0; i + 1 < h.size(); i += 2) r.push_back(static_cast<char>(v(h[i]) * 16 + v(h[i + 1])));
  return r;
}

// runs handler(caseId, opLines) for each case; the handler prints echo + observations itself
inline int run_cases(std::function<void(std::string const &, std::vector<std::string> const &)> handler)
{
  std::string line, id;
  std::vector<std::string> ops;
  bool in = false;
  while(std::getline(std::cin, line)) {
    if(line.rfind("case ", 0) == 0) {
      id = line.substr(5);
      ops.clear();
      in = true;
    } else if(line.rfind("end ", 0) == 0 && in) {
      out("case " + id);
      handler(id, ops);
      out("end " + id);
      in = false;
    } else if(in) {
      ops.push_back(line);
    }
  }
  return 0;
}

} // namespace har

// The URI dissection and numeric-service test of the pinned commit (65ddd93),
// kept verbatim (names suffixed) as a differential oracle for inputs short
// enough not to exhaust the stack inside std::regex (finding F4).
#pragma once
#include <regex>
#include <stdexcept>
#include <string>
#include <string_view>

namespace legacy {

inline bool IsServiceNumeric(std::string const &serv)
{
  static std::regex const reNumeric(R"(^\-?\d+$)");
  return std::regex_match(serv, reNumeric);
}

struct UriDissect
{
  std::string host;
  std::string serv;
  bool numericServ = false;
  bool matched = true;

  UriDissect(std::string_view uri)
  {
    std::cmatch match;
    static std::regex const reServ(R"(((^\w+)?://)?([^/]+)/?.*$)");
    if(std::regex_match(uri.data(), uri.data() + uri.size(), match, reServ)) {
      if(match[2].matched) {
        // URI of type serv://host/path
        serv = match[2].str();
      }

      // trim serv + path
      uri = {match[3].first, static_cast<size_t>(match[3].length())};

      static std::regex const rePortBracket(R"(^\[(.*)\]:(\d+$))");
      static std::regex const rePort(R"((^[^:]+):(\d+$))");
      if(std::regex_match(uri.data(), uri.data() + uri.size(), match, rePortBracket) ||
         std::regex_match(uri.data(), uri.data() + uri.size(), match, rePort)) {
        // URI of type [IPv6-host]:port or host:port
        host = match[1].str();
        serv = match[2].str();
        numericServ = true;
      } else {
        host = uri;
      }
    } else {
      matched = false;
    }
  }
};

} // namespace legacy

// Virtual OS shim: link-time interposition of the libc boundary the library
// uses.  Linked into every scenario executable; the library objects resolve
// poll/send/recv/... to the definitions in vos.cpp, which log the call, consult
// the current script and otherwise forward to the real function.
#pragma once
#include <cstdint>
#include <string>
#include <vector>

namespace vos {

// calls made by the harness itself (peers, drain threads) while a Bypass is alive on this
// thread go straight to the real functions: not logged, not scripted, not counted, real time
struct Bypass
{
  Bypass();
  ~Bypass();
  Bypass(Bypass const &) = delete;
};

// ---- control -------------------------------------------------------------
void reset();                              // clear script, log, counters, names; virtual time off
void virtual_time(bool on);                // steady_clock / CLOCK_MONOTONIC become virtual (starts at 10^12 ns)
int64_t now_ns();
void advance_ns(int64_t ns);
void set_ns(int64_t ns);

// a scripted answer for the next matching call of `sys` ("poll","send","sendto","recv","recvfrom",
// "accept","connect", ...) on descriptor `fd` (-1 = any).  kinds:
//   pass | short k | fail errno | eagain | zero | timeout | eintr [ms] | ready | notready | arrive ms
void push(std::string const &sys, int fd, std::string const &kind, long arg = 0);
size_t pending();                          // directives not yet consumed
void clear_script();

// fault injection by position: the index-th intercepted call (counted from reset/mark) fails
void fail_at(long index, int err);
long call_count();                         // intercepted calls since reset

void name_fd(int fd, std::string const &label);
std::string label(int fd);

void log_enable(bool on);
std::vector<std::string> take_log();       // and clear
void hang_exits(bool on);
void hang_returns(bool on);                // virtual time: such a poll logs 'forever' and returns 0 instead                  // virtual time: an unlimited poll with nothing ready -> report + _exit(97)

// descriptor ledger (sockets opened through socket()/accept() since reset)
std::vector<int> open_fds();
std::vector<std::string> ledger_errors();  // double close / close of an fd the library did not open
void ledger_track(bool on);

// getaddrinfo: answer numeric literals and "localhost" through the real resolver,
// everything else with EAI_NONAME at once (no DNS in the sandbox); log (node, service, flags)
void gai_offline(bool on);

// --- additions for C14/C17 (opt-in; defaults keep the behaviour above unchanged) ---
// quiet: intercepted calls are neither counted, fault-injected nor logged (setup / teardown phases of a
// scenario); the descriptor ledger keeps tracking
void quiet(bool on);
// label descriptors "fd<k>" with k from a counter that is never reused (default: reuse after close)
void monotone_ordinals(bool on);
// strict ledger: a close() of a descriptor the library never opened is recorded as "foreign close"
// (harnesses that enable this close their own descriptors with raw syscalls)
void ledger_strict(bool on);
// a successful getaddrinfo / getnameinfo leaves errno = ENOTTY (errno is unspecified after success; the real
// resolver does touch it): code that reads errno after formatting an address picks up garbage
void clobber_errno(bool on);
// raw byte capture (additive, used by C18/C15): every byte a successful send() on a captured
// descriptor handed to the kernel is appended to that descriptor's capture buffer
void capture(int fd, bool on);
std::string take_capture(int fd);          // and clear
// persistent segmentation: every recv (sys="recv") / send (sys="send") on fd is capped at k bytes (0 = off);
// like an endless supply of `short k` directives, without consuming the script
void cap(std::string const &sys, int fd, long k);
// total byte budget for send() on fd: sends are cut down to what is left; with nothing left they fail
// with EAGAIN (a full send buffer).  n < 0 = no budget (default)
void budget(int fd, long n);
// append a line of the caller's own to the call log (keeps one total order with the OS calls)
void log_note(std::string const &line);
// how long (ms, real time) an unlimited poll under virtual time waits for another thread before
// declaring a hang (default 3000)
void hang_wait_ms(int ms);

// statistics
long count(std::string const &sys);
long scripted_fired();

} // namespace vos

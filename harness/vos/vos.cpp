#include "vos/vos.h"

#include <atomic>
#include <cerrno>
#include <cstdarg>
#include <cstdio>
#include <cstring>
#include <deque>
#include <dlfcn.h>
#include <fcntl.h>
#include <map>
#include <netdb.h>
#include <poll.h>
#include <set>
#include <sys/socket.h>
#include <sys/types.h>
#include <time.h>
#include <unistd.h>

namespace vos {
namespace {

thread_local int tlBypass = 0;
std::atomic<unsigned long> gProgress{0}; // bumped by every interposed call of any thread (hang detection)

struct Spin
{
  std::atomic_flag f = ATOMIC_FLAG_INIT;
  void lock() { while(f.test_and_set(std::memory_order_acquire)) {} }
  void unlock() { f.clear(std::memory_order_release); }
};
struct Guard
{
  Spin &s;
  explicit Guard(Spin &s) : s(s) { s.lock(); }
  ~Guard() { s.unlock(); }
};

struct Directive
{
  std::string sys;
  int fd;
  std::string kind;
  long arg;
};

struct State
{
  Spin mtx;
  bool virt = false;
  int64_t vnow = 1000000000000LL;
  std::deque<Directive> script;
  std::map<long, int> faults;
  long calls = 0;
  bool logOn = false;
  std::vector<std::string> log;
  std::map<int, std::string> names;
  std::map<int, int> ordinals;
  bool hangExits = true;
  bool hangReturns = false;
  bool ledgerOn = true;
  std::set<int> open;
  std::vector<std::string> ledgerErr;
  bool gaiOffline = false;
  std::map<std::string, long> counts;
  long fired = 0;
  bool quiet = false;
  bool monotone = false;
  bool strict = false;
  bool clobber = false;
  int nextOrdinal = 0;
  std::map<int, std::string> closedOnce; // fd -> label it had when the library closed it (until the number is reused)
  std::map<int, std::string> captures;
  std::set<int> captured;
  int hangWaitMs = 3000;
  std::map<int, long> capRecv, capSend;
  std::map<int, long> sendBudget;
};

int newOrdinal(State &s)
{
  return s.monotone ? s.nextOrdinal++ : static_cast<int>(s.ordinals.size());
}

State &S()
{
  static State *s = new State(); // never destroyed: interposed calls may happen during exit
  return *s;
}

template<typename Fn>
Fn real(char const *name)
{
  return reinterpret_cast<Fn>(dlsym(RTLD_NEXT, name));
}

std::string labelLocked(int fd)
{
  auto &s = S();
  auto it = s.names.find(fd);
  if(it != s.names.end()) return it->second;
  auto io = s.ordinals.find(fd);
  if(io != s.ordinals.end()) return "fd" + std::to_string(io->second);
  return "ext";
}

// find + consume the first directive matching (sys, fd)
bool takeDirective(char const *sys, int fd, Directive &out)
{
  auto &s = S();
  for(auto it = s.script.begin(); it != s.script.end(); ++it) {
    if(it->sys == sys && (it->fd < 0 || it->fd == fd)) {
      out = *it;
      s.script.erase(it);
      ++s.fired;
      return true;
    }
  }
  return false;
}

bool takeDirectivePoll(pollfd *fds, nfds_t n, Directive &out)
{
  auto &s = S();
  for(auto it = s.script.begin(); it != s.script.end(); ++it) {
    if(it->sys != "poll") continue;
    bool match = (it->fd < 0);
    for(nfds_t i = 0; i < n && !match; ++i) match = (fds[i].fd == it->fd);
    if(match) {
      out = *it;
      s.script.erase(it);
      ++s.fired;
      return true;
    }
  }
  return false;
}

// returns errno to inject for this call index, or 0
int nextCall(char const *sys)
{
  auto &s = S();
  gProgress.fetch_add(1, std::memory_order_relaxed);
  if(s.quiet) return 0;
  long idx = s.calls++;
  ++s.counts[sys];
  auto it = s.faults.find(idx);
  if(it != s.faults.end()) {
    int e = it->second;
    s.faults.erase(it);
    ++s.fired;
    return e;
  }
  return 0;
}

void logLine(std::string line)
{
  auto &s = S();
  if(s.logOn && !s.quiet) s.log.push_back(std::move(line));
}

std::string resStr(long r, int err)
{
  if(r < 0) return "-1 errno=" + std::to_string(err);
  return std::to_string(r);
}

} // unnamed namespace

Bypass::Bypass() { ++tlBypass; }
Bypass::~Bypass() { --tlBypass; }

void reset()
{
  auto &s = S();
  Guard g(s.mtx);
  s.virt = false;
  s.vnow = 1000000000000LL;
  s.script.clear();
  s.faults.clear();
  s.calls = 0;
  s.log.clear();
  s.names.clear();
  s.ordinals.clear();
  s.open.clear();
  s.ledgerErr.clear();
  s.counts.clear();
  s.hangExits = true;
  s.hangReturns = false;
  s.quiet = false;
  s.nextOrdinal = 0;
  s.closedOnce.clear();
  s.captures.clear();
  s.captured.clear();
  s.hangWaitMs = 3000;
  s.capRecv.clear();
  s.capSend.clear();
  s.sendBudget.clear();
}

void virtual_time(bool on) { Guard g(S().mtx); S().virt = on; }
int64_t now_ns()
{
  auto &s = S();
  Guard g(s.mtx);
  if(s.virt) return s.vnow;
  timespec ts;
  static auto fn = real<int (*)(clockid_t, timespec *)>("clock_gettime");
  fn(CLOCK_MONOTONIC, &ts);
  return ts.tv_sec * 1000000000LL + ts.tv_nsec;
}
void advance_ns(int64_t ns) { Guard g(S().mtx); S().vnow += ns; }
void set_ns(int64_t ns) { Guard g(S().mtx); S().vnow = ns; }

void push(std::string const &sys, int fd, std::string const &kind, long arg)
{
  Guard g(S().mtx);
  S().script.push_back(Directive{sys, fd, kind, arg});
}
size_t pending() { Guard g(S().mtx); return S().script.size(); }
void clear_script() { Guard g(S().mtx); S().script.clear(); S().faults.clear(); }
void fail_at(long index, int err) { Guard g(S().mtx); S().faults[index] = err; }
long call_count() { Guard g(S().mtx); return S().calls; }
void name_fd(int fd, std::string const &l) { Guard g(S().mtx); S().names[fd] = l; }
std::string label(int fd) { Guard g(S().mtx); return labelLocked(fd); }
void log_enable(bool on) { Guard g(S().mtx); S().logOn = on; }
std::vector<std::string> take_log()
{
  Guard g(S().mtx);
  auto l = std::move(S().log);
  S().log.clear();
  return l;
}
void hang_exits(bool on) { Guard g(S().mtx); S().hangExits = on; }
void hang_returns(bool on) { Guard g(S().mtx); S().hangReturns = on; }
std::vector<int> open_fds() { Guard g(S().mtx); return {S().open.begin(), S().open.end()}; }
std::vector<std::string> ledger_errors() { Guard g(S().mtx); return S().ledgerErr; }
void ledger_track(bool on) { Guard g(S().mtx); S().ledgerOn = on; }
void gai_offline(bool on) { Guard g(S().mtx); S().gaiOffline = on; }
void quiet(bool on) { Guard g(S().mtx); S().quiet = on; }
void monotone_ordinals(bool on) { Guard g(S().mtx); S().monotone = on; }
void ledger_strict(bool on) { Guard g(S().mtx); S().strict = on; }
void clobber_errno(bool on) { Guard g(S().mtx); S().clobber = on; }
long count(std::string const &sys) { Guard g(S().mtx); return S().counts[sys]; }
long scripted_fired() { Guard g(S().mtx); return S().fired; }
void capture(int fd, bool on)
{
  Guard g(S().mtx);
  if(on) S().captured.insert(fd); else S().captured.erase(fd);
}
std::string take_capture(int fd)
{
  Guard g(S().mtx);
  std::string r;
  r.swap(S().captures[fd]);
  return r;
}
void cap(std::string const &sys, int fd, long k)
{
  Guard g(S().mtx);
  auto &m = (sys == "send") ? S().capSend : S().capRecv;
  if(k > 0) m[fd] = k; else m.erase(fd);
}
void budget(int fd, long n)
{
  Guard g(S().mtx);
  if(n >= 0) S().sendBudget[fd] = n; else S().sendBudget.erase(fd);
}
void log_note(std::string const &line) { Guard g(S().mtx); logLine(line); }
void hang_wait_ms(int ms) { Guard g(S().mtx); S().hangWaitMs = ms; }

} // namespace vos

using namespace vos;

extern "C" {

int clock_gettime(clockid_t clk, struct timespec *ts)
{
  static auto fn = real<int (*)(clockid_t, timespec *)>("clock_gettime");
  if(tlBypass) return fn(clk, ts);
  if(clk == CLOCK_MONOTONIC) {
    auto &s = S();
    Guard g(s.mtx);
    if(s.virt) {
      ts->tv_sec = s.vnow / 1000000000LL;
      ts->tv_nsec = s.vnow % 1000000000LL;
      return 0;
    }
  }
  return fn(clk, ts);
}

int poll(struct pollfd *fds, nfds_t n, int timeout)
{
  static auto fn = real<int (*)(pollfd *, nfds_t, int)>("poll");
  if(tlBypass) return fn(fds, n, timeout);
  auto &s = S();
  Directive d;
  bool have = false;
  int inject = 0;
  bool virt;
  int64_t at;
  std::string who;
  {
    Guard g(s.mtx);
    at = s.vnow;
    inject = nextCall("poll");
    if(!inject) have = takeDirectivePoll(fds, n, d);
    virt = s.virt;
    for(nfds_t i = 0; i < n; ++i) who += (i ? "," : "") + labelLocked(fds[i].fd) + ":" + std::to_string(fds[i].events);
  }
  auto finish = [&](int r, int err, char const *how) {
    {
      Guard g(s.mtx);
      std::string ev;
      for(nfds_t i = 0; i < n; ++i) ev += (i ? "," : "") + std::to_string(r > 0 ? fds[i].revents : 0);
      logLine("poll [" + who + "] timeout=" + std::to_string(timeout) + " at=" + std::to_string(at) + " adv=" + std::to_string((s.vnow - at) / 1000000) + " " + how + " -> " + resStr(r, err) + " rev=" + ev);
    }
    if(r < 0) errno = err;
    return r;
  };
  if(inject) return finish(-1, inject, "fault");
  if(have) {
    if(d.kind == "eintr") {
      if(timeout >= 0 && d.arg > timeout) {
        // the signal would arrive after the timeout expired: the poll times out first
        for(nfds_t i = 0; i < n; ++i) fds[i].revents = 0;
        if(virt && timeout > 0) advance_ns(timeout * 1000000LL);
        return finish(0, 0, "eintr-late");
      }
      if(virt && d.arg > 0) advance_ns(d.arg * 1000000LL);
      return finish(-1, EINTR, "eintr");
    }
    if(d.kind == "fail") return finish(-1, static_cast<int>(d.arg), "fail");
    if(d.kind == "timeout" || d.kind == "notready") {
      for(nfds_t i = 0; i < n; ++i) fds[i].revents = 0;
      if(timeout < 0) {
        logLine("poll unlimited scripted-timeout: hang");
        bool ex;
        { Guard g(s.mtx); ex = s.hangExits; }
        if(ex) { std::printf("-> hang unlimited poll scripted not ready\n"); std::fflush(stdout); _exit(97); }
      }
      if(virt && timeout > 0) advance_ns(timeout * 1000000LL);
      return finish(0, 0, "timeout");
    }
    if(d.kind == "arrive") {
      // the awaited event arrives d.arg ms from now (virtual): if within the timeout, wait for real readiness
      if(timeout >= 0 && d.arg > timeout) {
        for(nfds_t i = 0; i < n; ++i) fds[i].revents = 0;
        if(virt && timeout > 0) advance_ns(timeout * 1000000LL);
        return finish(0, 0, "arrive-late");
      }
      if(virt) advance_ns(d.arg * 1000000LL);
      int r = fn(fds, n, 3000);
      return finish(r, errno, "arrive");
    }
    if(d.kind == "ready") {
      int r = fn(fds, n, 3000); // kernel readiness may lag a little behind the peer's action
      return finish(r, errno, "ready");
    }
    // "pass": fall through
  }
  if(!virt) {
    int r = fn(fds, n, timeout);
    return finish(r, errno, "real");
  }
  int r = fn(fds, n, 0);
  if(r != 0) return finish(r, errno, "now");
  if(timeout >= 0) {
    if(timeout > 0) advance_ns(timeout * 1000000LL);
    return finish(0, 0, "vtimeout");
  }
  {
    bool ret;
    { Guard g(s.mtx); ret = s.hangReturns; }
    // scenario without peers: an unlimited wait with nothing ready would sleep forever;
    // report it as such and return "timeout" so that the scenario can go on
    if(ret) return finish(0, 0, "forever");
  }
  // unlimited wait in virtual time with nothing ready right now: give the kernel/peer threads
  // a moment (real), then declare a hang rather than blocking the check forever
  int hw;
  { Guard g(s.mtx); hw = s.hangWaitMs; }
  // "nothing happens" means: nothing became ready AND no other thread of the scenario issued any
  // system call during a whole window (a slow peer thread on a loaded machine is not a hang)
  for(int window = 0; window < 40; ++window) {
    unsigned long before = gProgress.load(std::memory_order_relaxed);
    r = fn(fds, n, hw);
    if(r != 0) return finish(r, errno, "waited");
    if(gProgress.load(std::memory_order_relaxed) == before) break;
  }
  bool ex;
  { Guard g(s.mtx); ex = s.hangExits; }
  if(ex) { std::printf("-> hang unlimited poll with nothing ready\n"); std::fflush(stdout); _exit(97); }
  r = fn(fds, n, timeout);
  return finish(r, errno, "real");
}

ssize_t send(int fd, void const *buf, size_t len, int flags)
{
  static auto fn = real<ssize_t (*)(int, void const *, size_t, int)>("send");
  if(tlBypass) return fn(fd, buf, len, flags);
  auto &s = S();
  Directive d;
  bool have = false;
  int inject;
  std::string who;
  {
    Guard g(s.mtx);
    inject = nextCall("send");
    if(!inject) have = takeDirective("send", fd, d);
    who = labelLocked(fd);
    if(!inject && !have) {
      auto c = s.capSend.find(fd);
      if(c != s.capSend.end()) { have = true; d = Directive{"send", fd, "short", c->second}; }
    }
    if(!inject) {
      auto b = s.sendBudget.find(fd);
      if(b != s.sendBudget.end()) {
        if(b->second <= 0) { have = true; d = Directive{"send", fd, "eagain", 0}; }
        else if(!have || d.kind == "short") {
          long k = (have && d.arg < b->second) ? d.arg : b->second;
          have = true;
          d = Directive{"send", fd, "short", k};
        }
      }
    }
  }
  ssize_t r;
  int err = 0;
  char const *how = "real";
  if(inject) { r = -1; err = inject; how = "fault"; }
  else if(have && d.kind == "fail") { r = -1; err = static_cast<int>(d.arg); how = "fail"; }
  else if(have && d.kind == "eagain") { r = -1; err = EAGAIN; how = "eagain"; }
  else if(have && d.kind == "zero") { r = 0; how = "zero"; }
  else if(have && d.kind == "short") {
    size_t k = static_cast<size_t>(d.arg) < len ? static_cast<size_t>(d.arg) : len;
    r = fn(fd, buf, k, flags); err = errno; how = "short";
  } else { r = fn(fd, buf, len, flags); err = errno; }
  {
    Guard g(s.mtx);
    logLine("send " + who + " len=" + std::to_string(len) + " nosignal=" + ((flags & MSG_NOSIGNAL) ? "1" : "0") + " " + how + " -> " + resStr(r, err));
    if(r > 0 && s.captured.count(fd)) s.captures[fd].append(static_cast<char const *>(buf), static_cast<size_t>(r));
    if(r > 0) {
      auto b = s.sendBudget.find(fd);
      if(b != s.sendBudget.end()) b->second -= r;
    }
  }
  if(r < 0) errno = err;
  return r;
}

ssize_t sendto(int fd, void const *buf, size_t len, int flags, struct sockaddr const *addr, socklen_t alen)
{
  static auto fn = real<ssize_t (*)(int, void const *, size_t, int, sockaddr const *, socklen_t)>("sendto");
  if(tlBypass) return fn(fd, buf, len, flags, addr, alen);
  auto &s = S();
  Directive d;
  bool have = false;
  int inject;
  std::string who;
  {
    Guard g(s.mtx);
    inject = nextCall("sendto");
    if(!inject) have = takeDirective("sendto", fd, d);
    who = labelLocked(fd);
  }
  ssize_t r;
  int err = 0;
  char const *how = "real";
  if(inject) { r = -1; err = inject; how = "fault"; }
  else if(have && d.kind == "fail") { r = -1; err = static_cast<int>(d.arg); how = "fail"; }
  else if(have && d.kind == "eagain") { r = -1; err = EAGAIN; how = "eagain"; }
  else if(have && d.kind == "short") {
    // a (bogus) short datagram write: really send the full datagram, report fewer bytes
    r = fn(fd, buf, len, flags, addr, alen); err = errno;
    if(r > static_cast<ssize_t>(d.arg)) r = d.arg;
    how = "short";
  } else { r = fn(fd, buf, len, flags, addr, alen); err = errno; }
  {
    Guard g(s.mtx);
    logLine("sendto " + who + " len=" + std::to_string(len) + " " + how + " -> " + resStr(r, err));
  }
  if(r < 0) errno = err;
  return r;
}

ssize_t recv(int fd, void *buf, size_t len, int flags)
{
  static auto fn = real<ssize_t (*)(int, void *, size_t, int)>("recv");
  if(tlBypass) return fn(fd, buf, len, flags);
  auto &s = S();
  Directive d;
  bool have = false;
  int inject;
  std::string who;
  {
    Guard g(s.mtx);
    inject = nextCall("recv");
    if(!inject) have = takeDirective("recv", fd, d);
    who = labelLocked(fd);
    if(!inject && !have) {
      auto c = s.capRecv.find(fd);
      if(c != s.capRecv.end()) { have = true; d = Directive{"recv", fd, "short", c->second}; }
    }
  }
  ssize_t r;
  int err = 0;
  char const *how = "real";
  if(inject) { r = -1; err = inject; how = "fault"; }
  else if(have && d.kind == "fail") { r = -1; err = static_cast<int>(d.arg); how = "fail"; }
  else if(have && d.kind == "eagain") { r = -1; err = EAGAIN; how = "eagain"; }
  else if(have && d.kind == "short") {
    size_t k = static_cast<size_t>(d.arg) < len ? static_cast<size_t>(d.arg) : len;
    r = fn(fd, buf, k, flags); err = errno; how = "short";
  } else { r = fn(fd, buf, len, flags); err = errno; }
  {
    Guard g(s.mtx);
    logLine("recv " + who + " len=" + std::to_string(len) + " " + how + " -> " + resStr(r, err));
  }
  if(r < 0) errno = err;
  return r;
}

ssize_t recvfrom(int fd, void *buf, size_t len, int flags, struct sockaddr *addr, socklen_t *alen)
{
  static auto fn = real<ssize_t (*)(int, void *, size_t, int, sockaddr *, socklen_t *)>("recvfrom");
  if(tlBypass) return fn(fd, buf, len, flags, addr, alen);
  auto &s = S();
  Directive d;
  bool have = false;
  int inject;
  std::string who;
  {
    Guard g(s.mtx);
    inject = nextCall("recvfrom");
    if(!inject) have = takeDirective("recvfrom", fd, d);
    who = labelLocked(fd);
  }
  ssize_t r;
  int err = 0;
  char const *how = "real";
  if(inject) { r = -1; err = inject; how = "fault"; }
  else if(have && d.kind == "fail") { r = -1; err = static_cast<int>(d.arg); how = "fail"; }
  else if(have && d.kind == "eagain") { r = -1; err = EAGAIN; how = "eagain"; }
  else { r = fn(fd, buf, len, flags, addr, alen); err = errno; }
  {
    Guard g(s.mtx);
    logLine("recvfrom " + who + " len=" + std::to_string(len) + " " + how + " -> " + resStr(r, err));
  }
  if(r < 0) errno = err;
  return r;
}

int socket(int domain, int type, int protocol)
{
  static auto fn = real<int (*)(int, int, int)>("socket");
  if(tlBypass) return fn(domain, type, protocol);
  auto &s = S();
  int inject;
  { Guard g(s.mtx); inject = nextCall("socket"); }
  int r = inject ? -1 : fn(domain, type, protocol);
  int err = inject ? inject : errno;
  {
    Guard g(s.mtx);
    if(r >= 0) {
      s.ordinals[r] = newOrdinal(s);
      s.closedOnce.erase(r);
      s.names.erase(r);
      if(s.ledgerOn) s.open.insert(r);
    }
    logLine(std::string("socket ") + (type == SOCK_DGRAM ? "dgram" : "stream") + " -> " + (r >= 0 ? labelLocked(r) : resStr(r, err)));
  }
  if(r < 0) errno = err;
  return r;
}

int accept(int fd, struct sockaddr *addr, socklen_t *alen)
{
  static auto fn = real<int (*)(int, sockaddr *, socklen_t *)>("accept");
  if(tlBypass) return fn(fd, addr, alen);
  auto &s = S();
  Directive d;
  bool have = false;
  int inject;
  std::string who;
  {
    Guard g(s.mtx);
    inject = nextCall("accept");
    if(!inject) have = takeDirective("accept", fd, d);
    who = labelLocked(fd);
  }
  int r;
  int err;
  if(inject) { r = -1; err = inject; }
  else if(have && d.kind == "fail") { r = -1; err = static_cast<int>(d.arg); }
  else { r = fn(fd, addr, alen); err = errno; }
  {
    Guard g(s.mtx);
    if(r >= 0) {
      s.ordinals[r] = newOrdinal(s);
      s.closedOnce.erase(r);
      s.names.erase(r);
      if(s.ledgerOn) s.open.insert(r);
    }
    logLine("accept " + who + " -> " + (r >= 0 ? labelLocked(r) : resStr(r, err)));
  }
  if(r < 0) errno = err;
  return r;
}

int close(int fd)
{
  static auto fn = real<int (*)(int)>("close");
  if(tlBypass) return fn(fd);
  auto &s = S();
  {
    Guard g(s.mtx);
    if(s.ordinals.count(fd)) {
      if(s.open.count(fd)) {
        // the close line is part of the ledger, not of the faultable call trace: logged even when quiet
        if(s.logOn) s.log.push_back("close " + labelLocked(fd));
        s.closedOnce[fd] = labelLocked(fd);
        s.open.erase(fd);
        s.ordinals.erase(fd);
        s.names.erase(fd);
      }
    } else if(s.closedOnce.count(fd)) {
      s.ledgerErr.push_back("double close " + s.closedOnce[fd]);
      if(s.logOn) s.log.push_back("close! double " + s.closedOnce[fd]);
    } else if(s.strict) {
      s.ledgerErr.push_back("foreign close " + std::to_string(fd));
      if(s.logOn) s.log.push_back("close! foreign " + std::to_string(fd));
    }
  }
  return fn(fd);
}

#define VOS_SIMPLE(NAME, PROTO, ARGS, FDEXPR)                                        \
  int NAME PROTO                                                                    \
  {                                                                                 \
    static auto fn = real<int (*) PROTO>(#NAME);                                    \
    if(tlBypass) return fn ARGS;                                                    \
    auto &s = S();                                                                  \
    Directive d;                                                                    \
    bool have = false;                                                              \
    int inject;                                                                     \
    std::string who;                                                                \
    {                                                                               \
      Guard g(s.mtx);                                                               \
      inject = nextCall(#NAME);                                                     \
      if(!inject) have = takeDirective(#NAME, FDEXPR, d);                           \
      who = labelLocked(FDEXPR);                                                    \
    }                                                                               \
    int r;                                                                          \
    int err;                                                                        \
    if(inject) { r = -1; err = inject; }                                            \
    else if(have && d.kind == "fail") { r = -1; err = static_cast<int>(d.arg); }    \
    else { r = fn ARGS; err = errno; }                                              \
    {                                                                               \
      Guard g(s.mtx);                                                               \
      logLine(std::string(#NAME " ") + who + " -> " + resStr(r, err));              \
    }                                                                               \
    if(r < 0) errno = err;                                                          \
    return r;                                                                       \
  }

VOS_SIMPLE(connect, (int fd, struct sockaddr const *a, socklen_t l), (fd, a, l), fd)
VOS_SIMPLE(bind, (int fd, struct sockaddr const *a, socklen_t l), (fd, a, l), fd)
VOS_SIMPLE(listen, (int fd, int b), (fd, b), fd)
VOS_SIMPLE(setsockopt, (int fd, int lv, int nm, void const *v, socklen_t l), (fd, lv, nm, v, l), fd)
VOS_SIMPLE(getsockopt, (int fd, int lv, int nm, void *v, socklen_t *l), (fd, lv, nm, v, l), fd)
VOS_SIMPLE(getsockname, (int fd, struct sockaddr *a, socklen_t *l), (fd, a, l), fd)
VOS_SIMPLE(getpeername, (int fd, struct sockaddr *a, socklen_t *l), (fd, a, l), fd)

int fcntl(int fd, int cmd, ...)
{
  static auto fn = real<int (*)(int, int, ...)>("fcntl");
  va_list ap;
  va_start(ap, cmd);
  long arg = va_arg(ap, long);
  va_end(ap);
  if(tlBypass) return fn(fd, cmd, arg);
  auto &s = S();
  bool ours;
  int inject = 0;
  std::string who;
  {
    Guard g(s.mtx);
    ours = s.ordinals.count(fd) > 0;
    if(ours) { inject = nextCall("fcntl"); who = labelLocked(fd); }
  }
  if(!ours) return fn(fd, cmd, arg);
  int r = inject ? -1 : fn(fd, cmd, arg);
  int err = inject ? inject : errno;
  {
    Guard g(s.mtx);
    logLine("fcntl " + who + " cmd=" + std::to_string(cmd) + " -> " + (r < 0 ? resStr(r, err) : std::string("ok")));
  }
  if(r < 0) errno = err;
  return r;
}

int getaddrinfo(char const *node, char const *service, struct addrinfo const *hints, struct addrinfo **res)
{
  static auto fn = real<int (*)(char const *, char const *, addrinfo const *, addrinfo **)>("getaddrinfo");
  if(tlBypass) return fn(node, service, hints, res);
  auto &s = S();
  int inject;
  bool offline;
  {
    Guard g(s.mtx);
    inject = nextCall("getaddrinfo");
    offline = s.gaiOffline;
  }
  int r;
  if(inject) {
    r = inject; // EAI_* code
  } else if(offline && node && std::strcmp(node, "localhost") != 0) {
    addrinfo h = hints ? *hints : addrinfo{};
    h.ai_flags |= AI_NUMERICHOST;
    r = fn(node, service, &h, res);
    if(r == EAI_NONAME || r == EAI_AGAIN || r == EAI_FAIL) r = EAI_NONAME;
  } else {
    r = fn(node, service, hints, res);
  }
  {
    Guard g(s.mtx);
    auto hx = [](char const *p) {
      static char const *dg = "0123456789abcdef";
      if(!p) return std::string("null");
      std::string o;
      for(; *p; ++p) { o.push_back(dg[(static_cast<unsigned char>(*p)) >> 4]); o.push_back(dg[*p & 15]); }
      return o.empty() ? std::string("-") : o;
    };
    logLine("getaddrinfo node=" + hx(node) + " serv=" + hx(service) + " flags=" + std::to_string(hints ? hints->ai_flags : 0) +
            " -> " + std::to_string(r));
    if(s.clobber && r == 0) errno = ENOTTY;
  }
  return r;
}

int getnameinfo(struct sockaddr const *sa, socklen_t salen, char *host, socklen_t hostlen,
                char *serv, socklen_t servlen, int flags)
{
  static auto fn = real<int (*)(sockaddr const *, socklen_t, char *, socklen_t, char *, socklen_t, int)>("getnameinfo");
  auto &s = S();
  int inject;
  { Guard g(s.mtx); inject = nextCall("getnameinfo"); }
  int r = inject ? inject : fn(sa, salen, host, hostlen, serv, servlen, flags);
  {
    Guard g(s.mtx);
    logLine("getnameinfo -> " + std::to_string(r));
    if(s.clobber && r == 0) errno = ENOTTY;
  }
  return r;
}

} // extern "C"

// Deterministic cooperative scheduler for real library threads.
//
// pthread_mutex_{lock,trylock,unlock}, poll, sendto and recvfrom are interposed at link time.
// A thread started through sched::spawn() parks at each of those calls ("sync point") and the
// controller (the thread calling sched::run()) decides who runs next from a schedule: a PRNG seeded
// by the case, an explicit list of choices, or a prefix list followed by the PRNG.  Exactly one
// worker runs at any time, so an execution is a deterministic function of the schedule, and "all
// parked, none enabled" is a deadlock that can be reported with the schedule as replay.
#pragma once
#include <cstdint>
#include <functional>
#include <string>
#include <vector>

namespace sched {

void reset(uint64_t seed, std::vector<int> const &prefix);

// register a name for a mutex / descriptor so that events are readable (and stable across runs)
void name_mutex(void const *nativeHandle, std::string const &name);
void name_fd(int fd, std::string const &name);

// create a worker; it does not run before run() schedules it.  Returns its ordinal (0, 1, ...)
int spawn(std::string const &name, std::function<void()> body);

// run `fn` on worker `id`'s own thread when it reaches its k-th scheduling point (k >= 1), before the
// call that constitutes that point: simulates a signal handler interrupting the thread there
void inject_at(int id, int k, std::function<void()> fn);

// append an event line to the trace on behalf of the running worker (no scheduling point)
void mark(std::string const &text);

// a scheduling point that is enabled only when pred() holds (evaluated while all workers are parked)
void wait_until(std::string const &what, std::function<bool()> pred);

// plain scheduling point (always enabled)
void yield(std::string const &what);

enum class Outcome { Done, Deadlock, Stuck };

// drive the workers until all finished; on Deadlock/Stuck the remaining workers are abandoned
// (the caller must _exit the process afterwards)
Outcome run();

std::vector<std::string> take_trace();
std::vector<int> choices(); // the schedule actually taken (index into the enabled list at each point)
std::string describe_blocked(); // who is parked on what (for deadlock reports)

} // namespace sched

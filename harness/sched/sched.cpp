#include "sched/sched.h"

#include <atomic>
#include <cerrno>
#include <cstdio>
#include <cstring>
#include <dlfcn.h>
#include <map>
#include <memory>
#include <poll.h>
#include <pthread.h>
#include <semaphore.h>
#include <sys/socket.h>
#include <thread>
#include <time.h>


namespace sched {
namespace {

enum class Kind { Start, Lock, TryLock, Unlock, Poll, SendTo, RecvFrom, Wait, Yield };
enum class State { New, Parked, Running, Done };

struct Worker
{
  int id = 0;
  std::string name;
  std::function<void()> body;
  std::thread thread;
  sem_t sem;
  State state = State::New;
  // pending request
  Kind kind = Kind::Start;
  pthread_mutex_t *mtx = nullptr;
  pollfd *fds = nullptr;
  nfds_t nfds = 0;
  int timeout = 0;
  int fd = -1;
  std::string what;
  std::function<bool()> pred;
  // decision of the controller
  bool ok = true; // trylock success / poll ready
  int syncCount = 0;
  bool interrupted = false; // the pending 'signal' is delivered while blocked in this poll (EINTR)
  int injectAt = 0;
  std::function<void()> injectFn;
};

struct MutexInfo
{
  Worker *owner = nullptr;
  int count = 0;
};

struct Global
{
  bool active = false;
  std::vector<std::unique_ptr<Worker>> workers;
  sem_t ctl;
  std::atomic<int> running{0};
  std::map<pthread_mutex_t *, MutexInfo> mutexes;
  std::map<void const *, std::string> mutexNames;
  std::map<int, std::string> fdNames;
  std::vector<std::string> trace;
  std::vector<int> taken;
  std::vector<int> prefix;
  size_t prefixPos = 0;
  uint64_t rng = 1;
  std::atomic_flag traceLock = ATOMIC_FLAG_INIT;
  std::atomic<long long> vnow{1000000000000LL}; // virtual CLOCK_MONOTONIC (ns) while active
};

Global &G()
{
  static Global *g = new Global();
  return *g;
}

thread_local Worker *tlWorker = nullptr;

template<typename Fn>
Fn real(char const *name)
{
  return reinterpret_cast<Fn>(dlsym(RTLD_NEXT, name));
}

std::string MutexName(pthread_mutex_t *m)
{
  auto &g = G();
  auto it = g.mutexNames.find(m);
  if(it != g.mutexNames.end()) return it->second;
  auto name = "m" + std::to_string(g.mutexNames.size());
  g.mutexNames[m] = name;
  return name;
}

std::string FdName(int fd)
{
  auto &g = G();
  auto it = g.fdNames.find(fd);
  if(it != g.fdNames.end()) return it->second;
  auto name = "fd" + std::to_string(g.fdNames.size());
  g.fdNames[fd] = name;
  return name;
}

void Trace(std::string line)
{
  auto &g = G();
  while(g.traceLock.test_and_set(std::memory_order_acquire)) {}
  g.trace.push_back(std::move(line));
  g.traceLock.clear(std::memory_order_release);
}

bool IsRecursive(pthread_mutex_t *m)
{
  return (m->__data.__kind & 127) == PTHREAD_MUTEX_RECURSIVE_NP;
}

// park the calling worker with its request filled in; returns when the controller granted it
void Park(Worker *w)
{
  auto &g = G();
  w->state = State::Parked;
  g.running.fetch_sub(1);
  sem_post(&g.ctl);
  sem_wait(&w->sem);
}

// a "signal handler" runs on the worker's own thread in front of its k-th scheduling point
void MaybeInject(Worker *w)
{
  if(w->injectFn && ++w->syncCount == w->injectAt) {
    auto fn = std::move(w->injectFn);
    w->injectFn = nullptr;
    fn();
  }
}

uint64_t NextRand()
{
  auto &g = G();
  g.rng ^= g.rng << 13;
  g.rng ^= g.rng >> 7;
  g.rng ^= g.rng << 17;
  return g.rng;
}

} // unnamed namespace

void reset(uint64_t seed, std::vector<int> const &prefix)
{
  auto &g = G();
  g.active = false;
  for(auto &w : g.workers) if(w->thread.joinable()) w->thread.join(); // only reached when all are done
  g.workers.clear();
  sem_init(&g.ctl, 0, 0);
  g.running = 0;
  g.mutexes.clear();
  g.mutexNames.clear();
  g.fdNames.clear();
  g.trace.clear();
  g.taken.clear();
  g.prefix = prefix;
  g.prefixPos = 0;
  g.rng = seed * 2654435761ULL + 88172645463325252ULL;
  g.vnow = 1000000000000LL;
}

void name_mutex(void const *h, std::string const &name) { G().mutexNames[h] = name; }
void name_fd(int fd, std::string const &name) { G().fdNames[fd] = name; }

int spawn(std::string const &name, std::function<void()> body)
{
  auto &g = G();
  auto w = std::make_unique<Worker>();
  w->id = static_cast<int>(g.workers.size());
  w->name = name;
  w->body = std::move(body);
  sem_init(&w->sem, 0, 0);
  w->state = State::Parked;
  w->kind = Kind::Start;
  auto *raw = w.get();
  g.workers.push_back(std::move(w));
  raw->thread = std::thread([raw]() {
    sem_wait(&raw->sem); // first grant
    tlWorker = raw;
    raw->body();
    tlWorker = nullptr;
    Trace("T" + std::to_string(raw->id) + " done");
    raw->state = State::Done;
    G().running.fetch_sub(1);
    sem_post(&G().ctl);
  });
  return raw->id;
}

void inject_at(int id, int k, std::function<void()> fn)
{
  auto &w = *G().workers.at(static_cast<size_t>(id));
  w.injectAt = k;
  w.injectFn = std::move(fn);
}

void mark(std::string const &text)
{
  auto *w = tlWorker;
  Trace("T" + std::to_string(w ? w->id : -1) + " mark " + text);
}

void wait_until(std::string const &what, std::function<bool()> pred)
{
  auto *w = tlWorker;
  if(!w || !G().active) {
    while(!pred()) std::this_thread::yield();
    return;
  }
  w->kind = Kind::Wait;
  w->what = what;
  w->pred = std::move(pred);
  Park(w);
}

void yield(std::string const &what)
{
  auto *w = tlWorker;
  if(!w || !G().active) return;
  w->kind = Kind::Yield;
  w->what = what;
  Park(w);
}

std::string describe_blocked()
{
  auto &g = G();
  std::string out;
  for(auto &w : g.workers) {
    if(w->state != State::Parked) continue;
    out += "T" + std::to_string(w->id) + "(" + w->name + "):";
    switch(w->kind) {
    case Kind::Lock: out += "lock " + MutexName(w->mtx); break;
    case Kind::Poll: out += "poll t=" + std::to_string(w->timeout); break;
    case Kind::Wait: out += "wait " + w->what; break;
    default: out += "other"; break;
    }
    out += " ";
  }
  return out;
}

Outcome run()
{
  auto &g = G();
  static auto realPoll = real<int (*)(pollfd *, nfds_t, int)>("poll");
  g.active = true;
  for(;;) {
    // wait until no worker is running
    while(g.running.load() > 0) {
      timespec ts;
      clock_gettime(CLOCK_REALTIME, &ts);
      ts.tv_sec += 10;
      if(sem_timedwait(&g.ctl, &ts) != 0 && errno == ETIMEDOUT) {
        if(g.running.load() > 0) return Outcome::Stuck;
      }
    }
    std::vector<Worker *> enabled;
    bool anyLive = false;
    for(auto &wp : g.workers) {
      auto *w = wp.get();
      if(w->state != State::Parked) continue;
      anyLive = true;
      bool en = true;
      switch(w->kind) {
      case Kind::Lock: {
        auto &mi = g.mutexes[w->mtx];
        en = (mi.owner == nullptr) || (mi.owner == w && IsRecursive(w->mtx));
        break;
      }
      case Kind::TryLock: {
        auto &mi = g.mutexes[w->mtx];
        w->ok = (mi.owner == nullptr) || (mi.owner == w && IsRecursive(w->mtx));
        break;
      }
      case Kind::Poll: {
        std::vector<pollfd> copy(w->fds, w->fds + w->nfds);
        int r = realPoll(copy.data(), copy.size(), 0);
        w->ok = (r > 0);
        en = w->ok || (w->timeout >= 0);
        break;
      }
      case Kind::Wait: en = w->pred(); break;
      default: break;
      }
      if(en) enabled.push_back(w);
    }
    if(!anyLive) return Outcome::Done;
    if(enabled.empty()) {
      // a pending 'signal' for a thread that is blocked in poll for good is delivered now: EINTR
      Worker *victim = nullptr;
      for(auto &wp : g.workers)
        if(wp->state == State::Parked && wp->kind == Kind::Poll && wp->injectFn) { victim = wp.get(); break; }
      if(!victim) return Outcome::Deadlock;
      victim->interrupted = true;
      std::string ev = "T" + std::to_string(victim->id) + " poll";
      for(nfds_t i = 0; i < victim->nfds; ++i) ev += " " + FdName(victim->fds[i].fd) + ":" + std::to_string(victim->fds[i].events);
      Trace(ev + " t=" + (victim->timeout < 0 ? "inf" : "lim") + " -> eintr");
      g.taken.push_back(-1);
      victim->state = State::Running;
      g.running.fetch_add(1);
      sem_post(&victim->sem);
      continue;
    }
    size_t idx;
    if(g.prefixPos < g.prefix.size()) idx = static_cast<size_t>(g.prefix[g.prefixPos++]) % enabled.size();
    else idx = NextRand() % enabled.size();
    g.taken.push_back(static_cast<int>(idx));
    auto *w = enabled[idx];
    // describe the action that is about to happen
    std::string ev = "T" + std::to_string(w->id) + " ";
    switch(w->kind) {
    case Kind::Start: ev += "start " + w->name; break;
    case Kind::Lock: ev += "lock " + MutexName(w->mtx); break;
    case Kind::TryLock: ev += "trylock " + MutexName(w->mtx) + (w->ok ? " ok" : " fail"); break;
    case Kind::Unlock: ev += "unlock " + MutexName(w->mtx); break;
    case Kind::Poll: {
      ev += "poll";
      std::vector<pollfd> copy(w->fds, w->fds + w->nfds);
      int r = realPoll(copy.data(), copy.size(), 0);
      for(auto const &p : copy) ev += " " + FdName(p.fd) + ":" + std::to_string(p.events);
      ev += " t=" + std::string(w->timeout < 0 ? "inf" : (w->timeout == 0 ? "0" : "lim"));
      if(r > 0) {
        ev += " -> ready";
        for(auto const &p : copy) if(p.revents) ev += " " + FdName(p.fd);
      } else {
        ev += " -> timeout";
      }
      break;
    }
    case Kind::SendTo: ev += "sendto " + FdName(w->fd); break;
    case Kind::RecvFrom: ev += "recvfrom " + FdName(w->fd); break;
    case Kind::Wait: ev += "wait " + w->what; break;
    case Kind::Yield: ev += "yield " + w->what; break;
    }
    Trace(ev);
    // book-keeping of mutex ownership happens here, in schedule order
    if(w->kind == Kind::Lock || (w->kind == Kind::TryLock && w->ok)) {
      auto &mi = g.mutexes[w->mtx];
      mi.owner = w;
      ++mi.count;
    } else if(w->kind == Kind::Unlock) {
      auto &mi = g.mutexes[w->mtx];
      if(mi.owner == w && --mi.count == 0) mi.owner = nullptr;
    }
    w->state = State::Running;
    g.running.fetch_add(1);
    sem_post(&w->sem);
  }
}

std::vector<std::string> take_trace()
{
  auto &g = G();
  auto t = std::move(g.trace);
  g.trace.clear();
  return t;
}

std::vector<int> choices() { return G().taken; }

} // namespace sched

using namespace sched;

extern "C" {

int pthread_mutex_lock(pthread_mutex_t *m)
{
  static auto __pthread_mutex_lock = real<int (*)(pthread_mutex_t *)>("pthread_mutex_lock");
  auto *w = tlWorker;
  if(!w || !G().active) return __pthread_mutex_lock(m);
  MaybeInject(w);
  w->kind = Kind::Lock;
  w->mtx = m;
  Park(w);
  return __pthread_mutex_lock(m);
}

int pthread_mutex_trylock(pthread_mutex_t *m)
{
  static auto __pthread_mutex_trylock = real<int (*)(pthread_mutex_t *)>("pthread_mutex_trylock");
  auto *w = tlWorker;
  if(!w || !G().active) return __pthread_mutex_trylock(m);
  MaybeInject(w);
  w->kind = Kind::TryLock;
  w->mtx = m;
  Park(w);
  if(!w->ok) return EBUSY;
  return __pthread_mutex_trylock(m);
}

int pthread_mutex_unlock(pthread_mutex_t *m)
{
  static auto __pthread_mutex_unlock = real<int (*)(pthread_mutex_t *)>("pthread_mutex_unlock");
  auto *w = tlWorker;
  if(!w || !G().active) return __pthread_mutex_unlock(m);
  MaybeInject(w);
  w->kind = Kind::Unlock;
  w->mtx = m;
  Park(w);
  return __pthread_mutex_unlock(m);
}

int poll(struct pollfd *fds, nfds_t n, int timeout)
{
  static auto fn = real<int (*)(pollfd *, nfds_t, int)>("poll");
  auto *w = tlWorker;
  if(!w || !G().active) return fn(fds, n, timeout);
  MaybeInject(w);
  w->kind = Kind::Poll;
  w->fds = fds;
  w->nfds = n;
  w->timeout = timeout;
  Park(w);
  if(w->interrupted) {
    w->interrupted = false;
    auto handler = std::move(w->injectFn);
    w->injectFn = nullptr;
    handler(); // the signal handler runs on this thread, then the interrupted poll returns EINTR
    errno = EINTR;
    return -1;
  }
  if(w->ok) return fn(fds, n, 0);
  for(nfds_t i = 0; i < n; ++i) fds[i].revents = 0;
  if(timeout > 0) G().vnow.fetch_add(static_cast<long long>(timeout) * 1000000LL);
  return 0; // the (limited) timeout fires
}

int clock_gettime(clockid_t clk, struct timespec *ts)
{
  static auto fn = real<int (*)(clockid_t, timespec *)>("clock_gettime");
  if(clk == CLOCK_MONOTONIC && G().active) {
    long long v = G().vnow.load();
    ts->tv_sec = v / 1000000000LL;
    ts->tv_nsec = v % 1000000000LL;
    return 0;
  }
  return fn(clk, ts);
}

ssize_t sendto(int fd, void const *buf, size_t len, int flags, struct sockaddr const *addr, socklen_t alen)
{
  static auto fn = real<ssize_t (*)(int, void const *, size_t, int, sockaddr const *, socklen_t)>("sendto");
  auto *w = tlWorker;
  if(!w || !G().active) return fn(fd, buf, len, flags, addr, alen);
  MaybeInject(w);
  w->kind = Kind::SendTo;
  w->fd = fd;
  Park(w);
  return fn(fd, buf, len, flags, addr, alen);
}

ssize_t recvfrom(int fd, void *buf, size_t len, int flags, struct sockaddr *addr, socklen_t *alen)
{
  static auto fn = real<ssize_t (*)(int, void *, size_t, int, sockaddr *, socklen_t *)>("recvfrom");
  auto *w = tlWorker;
  if(!w || !G().active) return fn(fd, buf, len, flags, addr, alen);
  MaybeInject(w);
  w->kind = Kind::RecvFrom;
  w->fd = fd;
  Park(w);
  return fn(fd, buf, len, flags, addr, alen);
}

} // extern "C"

// C14 scenario runner: every public constructor / throwing operation of the library is executed with
// operating-system failures injected by position in its intercepted call trace (vos::fail_at).
//
// One case = one op line
//   free   <scenario>                      fault-free
//   single <scenario> <k> <sel>            the k-th call of round 1 fails (errno = plausible list of that call [sel])
//   pair   <scenario> <k1> <k2> <s1> <s2>  two positions of the two-round trace fail
//   replay <scenario> <pos:errno,...>      explicit
//   probe  <scenario> <kmax>               checks that round 1 has at most kmax calls (exhaustiveness of `single`)
// and runs in a forked child (abort / sanitizer report / signal = outcome "crash").  A scenario is
// setup (quiet: not counted, not faulted), a few *steps* (one API call each, faultable, outcome observed),
// teardown (quiet).  It is run for two rounds in the same process: with a single fault in round 1, round 2 is
// the fault-free follow-up ("the library remains usable").  The transcript carries per step the observed
// call trace as (name, fd ordinal, result class), the closes, handler / future events and the outcome, and
// per round the descriptor ledger after everything was destroyed.
#include "h/common.h"
#include "vos/vos.h"

#include "sockpuppet/socket_async.h"

#include <arpa/inet.h>
#include <cerrno>
#include <cstring>
#include <map>
#include <netdb.h>
#include <netinet/in.h>
#include <optional>
#include <poll.h>
#include <set>
#include <sys/socket.h>
#include <sys/syscall.h>
#include <sys/wait.h>
#include <unistd.h>

using namespace sockpuppet;

namespace raw { // harness-side peers: raw system calls, invisible to the shim
int socket(int type) { return static_cast<int>(::syscall(SYS_socket, AF_INET, type, 0)); }
// closes with an RST (no TIME_WAIT sockets pile up over thousands of runs); harmless for datagram sockets
void close(int fd)
{
  if(fd < 0) return;
  linger lg{1, 0};
  ::syscall(SYS_setsockopt, fd, SOL_SOCKET, SO_LINGER, &lg, sizeof(lg));
  ::syscall(SYS_close, fd);
}
uint16_t bindAny(int fd)
{
  sockaddr_in a{};
  a.sin_family = AF_INET;
  a.sin_addr.s_addr = htonl(INADDR_LOOPBACK);
  ::syscall(SYS_bind, fd, &a, sizeof(a));
  socklen_t l = sizeof(a);
  ::syscall(SYS_getsockname, fd, &a, &l);
  return ntohs(a.sin_port);
}
void listen(int fd) { ::syscall(SYS_listen, fd, 8); }
bool connect(int fd, uint16_t port)
{
  sockaddr_in a{};
  a.sin_family = AF_INET;
  a.sin_addr.s_addr = htonl(INADDR_LOOPBACK);
  a.sin_port = htons(port);
  return ::syscall(SYS_connect, fd, &a, sizeof(a)) == 0;
}
int accept(int fd) { return static_cast<int>(::syscall(SYS_accept, fd, nullptr, nullptr)); }
void sendto(int fd, uint16_t port, char const *d, size_t n)
{
  sockaddr_in a{};
  a.sin_family = AF_INET;
  a.sin_addr.s_addr = htonl(INADDR_LOOPBACK);
  a.sin_port = htons(port);
  ::syscall(SYS_sendto, fd, d, n, 0, &a, sizeof(a));
}
void send(int fd, char const *d, size_t n) { ::syscall(SYS_sendto, fd, d, n, MSG_NOSIGNAL, nullptr, 0); }
bool waitReadable(int fd, int ms = 2000)
{
  pollfd p{fd, POLLIN, 0};
  return ::syscall(SYS_poll, &p, 1, ms) > 0;
}
} // namespace raw

namespace {

std::vector<int> const &errnosFor(std::string const &call)
{
  static std::map<std::string, std::vector<int>> const m = {
    {"socket", {EMFILE, ENFILE, EACCES, ENOBUFS}},
    {"bind", {EADDRINUSE, EACCES}},
    {"listen", {EADDRINUSE, EBADF}},
    {"connect", {ECONNREFUSED, ETIMEDOUT, ENETUNREACH}},
    {"accept", {EMFILE, ECONNABORTED}},
    {"fcntl", {EBADF, EINVAL}},
    {"setsockopt", {EBADF, EINVAL, ENOPROTOOPT}},
    {"getsockopt", {EBADF, EINVAL}},
    {"getsockname", {EBADF, ENOBUFS, EINVAL}},
    {"getpeername", {ENOTCONN, EBADF, EINVAL}},
    {"send", {EPIPE, ECONNRESET, ENOBUFS, EMSGSIZE}},
    {"sendto", {EPIPE, ECONNRESET, ENOBUFS, EMSGSIZE}},
    {"recv", {ECONNRESET, ENOMEM}},
    {"recvfrom", {ECONNRESET, ENOMEM}},
    {"poll", {ENOMEM, EINVAL}},
    {"getaddrinfo", {EAI_AGAIN, EAI_FAIL, EAI_MEMORY, EAI_NONAME}},
    {"getnameinfo", {EAI_AGAIN, EAI_FAIL, EAI_MEMORY, EAI_OVERFLOW}},
  };
  static std::vector<int> const dflt = {EINVAL};
  auto it = m.find(call);
  return it == m.end() ? dflt : it->second;
}

struct Run
{
  bool print = true;                 // false = discovery round (collect call names only)
  std::map<long, int> armed;         // absolute position -> errno
  long pos = 0;                      // calls seen so far (faultable phases only)
  std::vector<std::string> names;    // call name per position
  std::vector<std::string> events;   // handler events of the current step
  long discarded = 0;

  void say(std::string const &s) { if(print) har::obs(s); }

  // turn the shim's log into "sys name fd class [newfd]" / "close fd" lines
  void drain()
  {
    for(auto const &l : vos::take_log()) {
      auto w = har::words(l);
      if(w.empty()) continue;
      if(w[0] == "close") { say("close " + w[1]); continue; }
      if(w[0] == "close!") { say("badclose " + w[1] + " " + w[2]); continue; }
      std::string name = w[0];
      std::string fd = "-";
      if(name == "poll") {
        auto a = l.find('['), b = l.find(']');
        auto inner = l.substr(a + 1, b - a - 1);
        fd = (inner.find(',') == std::string::npos) ? inner.substr(0, inner.find(':')) : std::string("*");
      } else if(name != "socket" && name != "getaddrinfo" && name != "getnameinfo" && w.size() > 1) {
        fd = w[1];
      }
      auto arrow = l.rfind(" -> ");
      auto res = har::words(l.substr(arrow + 4));
      std::string cls = "ok";
      bool gai = (name == "getaddrinfo" || name == "getnameinfo");
      long code = 0;
      bool failed = false;
      if(gai) {
        code = std::stol(res[0]);
        failed = (code != 0);
      } else if(res[0] == "-1" && res.size() > 1 && res[1].rfind("errno=", 0) == 0) {
        code = std::stol(res[1].substr(6));
        failed = true;
      }
      if(failed) {
        auto it = armed.find(pos);
        bool injected = (it != armed.end() && it->second == code);
        cls = std::string(injected ? "fault " : "err ") + std::to_string(code);
      } else if(name == "socket" || name == "accept") {
        cls = "ok " + res[0];
      }
      names.push_back(name);
      say("sys " + name + " " + fd + " " + cls);
      ++pos;
    }
  }

  void setup(std::function<void()> f)
  {
    vos::quiet(true);
    f();
    drain();
    std::string have = "have";
    for(int fd : vos::open_fds()) have += " " + vos::label(fd);
    say(have);
  }

  // one faultable API call; returns true if it returned normally
  bool step(std::string const &name, std::function<void()> f, std::function<void()> after = {})
  {
    drain();
    say("step " + name);
    events.clear();
    std::string outcome = "ok";
    vos::quiet(false);
    try {
      f();
    } catch(std::system_error const &e) {
      std::string cat = (e.code().category() == std::system_category() ? "system" :
                         (std::string(e.code().category().name()) == "GetAddrInfoError" ? "address" : "othercat"));
      outcome = "exn " + cat + " " + std::to_string(e.code().value());
    } catch(std::logic_error const &) {
      outcome = "exn logic 0";
    } catch(std::runtime_error const &) {
      outcome = "exn runtime 0";
    } catch(std::exception const &) {
      outcome = "exn other 0";
    } catch(...) {
      outcome = "exn unknown 0";
    }
    vos::quiet(true);
    drain();
    if(after) after();
    for(auto const &e : events) say("ev " + e);
    say("outcome " + outcome);
    return outcome == "ok";
  }

  void teardown(std::function<void()> f)
  {
    drain();
    say("teardown");
    vos::quiet(true);
    f();
    drain();
  }
};

Run *g = nullptr;

// reports a future once, when it has become ready ("" = nothing new)
std::string futState(std::future<void> &f)
{
  if(!f.valid()) return "";
  if(f.wait_for(std::chrono::seconds(0)) != std::future_status::ready) return "";
  try {
    f.get();
    return "value";
  } catch(std::future_error const &) {
    return "broken";
  } catch(std::system_error const &e) {
    return "exn system " + std::to_string(e.code().value());
  } catch(std::runtime_error const &) {
    return "exn runtime";
  } catch(std::exception const &) {
    return "exn other";
  }
}

struct RawListener
{
  int fd = -1;
  uint16_t port = 0;
  std::vector<int> accepted;
  RawListener()
  {
    fd = raw::socket(SOCK_STREAM);
    int one = 1;
    ::syscall(SYS_setsockopt, fd, SOL_SOCKET, SO_REUSEADDR, &one, sizeof(one));
    port = raw::bindAny(fd);
    raw::listen(fd);
  }
  ~RawListener() { for(int a : accepted) raw::close(a); raw::close(fd); }
  Address addr() const { return Address("127.0.0.1:" + std::to_string(port)); }
  int acceptOne()
  {
    if(!raw::waitReadable(fd)) return -1;
    int a = raw::accept(fd);
    accepted.push_back(a);
    return a;
  }
};

Address loop0() { return Address("127.0.0.1:0"); }

// the library only listen()s inside Listen(); to let a raw client connect before the call under test,
// the harness puts the descriptor into the listening state itself
void rawListenOn(int fd) { raw::listen(fd); }

} // unnamed namespace

#include "socket_async_impl.h" // internal header (as the repo's internals test does): descriptor of an acceptor
#include "socket_impl.h"

namespace {

using Scen = std::function<void(Run &)>;

std::map<std::string, Scen> const &scenarios()
{
  static std::map<std::string, Scen> const m = {
    // ---- addresses -------------------------------------------------------------------------------
    {"addr_uri", [](Run &r) {
       std::optional<Address> a;
       r.step("ctor", [&] { a.emplace("localhost:8554"); });
       r.teardown([&] { a.reset(); });
     }},
    {"addr_hostserv", [](Run &r) {
       std::optional<Address> a;
       r.step("ctor", [&] { a.emplace("127.0.0.1", "8080"); });
       r.teardown([&] { a.reset(); });
     }},
    {"addr_port", [](Run &r) {
       std::optional<Address> a;
       r.step("ctor", [&] { a.emplace(uint16_t(8080)); });
       r.teardown([&] { a.reset(); });
     }},
    {"addr_tostring", [](Run &r) {
       std::optional<Address> a;
       r.setup([&] { a.emplace("127.0.0.1:8080"); });
       r.step("op", [&] { if(to_string(*a) != "127.0.0.1:8080") throw std::logic_error("bogus"); });
       r.step("op", [&] { if(a->Host() != "127.0.0.1") throw std::logic_error("bogus"); });
       r.step("op", [&] { if(a->Service() != "8080") throw std::logic_error("bogus"); });
       r.teardown([&] { a.reset(); });
     }},
    // ---- plain sockets ---------------------------------------------------------------------------
    {"udp_ctor", [](Run &r) {
       std::optional<Address> a;
       std::optional<SocketUdp> s;
       r.setup([&] { a = loop0(); });
       r.step("ctor", [&] { s.emplace(*a); });
       r.teardown([&] { s.reset(); });
     }},
    {"tcp_ctor", [](Run &r) {
       RawListener peer;
       std::optional<Address> a;
       std::optional<SocketTcp> s;
       r.setup([&] { a = peer.addr(); });
       r.step("ctor", [&] { s.emplace(*a); });
       r.teardown([&] { s.reset(); });
     }},
    {"acceptor_ctor", [](Run &r) {
       std::optional<Address> a;
       std::optional<Acceptor> s;
       r.setup([&] { a = loop0(); });
       r.step("ctor", [&] { s.emplace(*a); });
       r.teardown([&] { s.reset(); });
     }},
    {"udp_ops", [](Run &r) {
       std::optional<SocketUdp> s;
       int peer = raw::socket(SOCK_DGRAM);
       uint16_t peerPort = raw::bindAny(peer);
       std::optional<Address> dst;
       uint16_t port = 0;
       r.setup([&] {
         s.emplace(loop0());
         port = s->LocalAddress().Port();
         dst.emplace("127.0.0.1:" + std::to_string(peerPort));
         raw::sendto(peer, port, "hello", 5);
         raw::waitReadable(s->impl->fd);
       });
       char buf[64];
       r.step("op", [&] { if(s->SendTo("abc", 3, *dst, Duration(-1)) != 3) throw std::logic_error("bogus"); });
       r.step("op", [&] { if(s->SendTo("abc", 3, *dst, Duration(0)) != 3) throw std::logic_error("bogus"); });
       r.step("op", [&] {
         auto got = s->ReceiveFrom(buf, sizeof(buf), Duration(100));
         if(!got || got->first != 5) throw std::logic_error("bogus");
       });
       r.step("op", [&] { if(s->LocalAddress().Port() != port) throw std::logic_error("bogus"); });
       r.step("op", [&] { if(s->ReceiveBufferSize() == 0) throw std::logic_error("bogus"); });
       r.teardown([&] { s.reset(); raw::close(peer); });
     }},
    {"tcp_ops", [](Run &r) {
       RawListener peer;
       std::optional<SocketTcp> s;
       r.setup([&] {
         s.emplace(peer.addr());
         int a = peer.acceptOne();
         raw::send(a, "hello", 5);
         raw::waitReadable(s->impl->fd);
       });
       char buf[64];
       r.step("op", [&] { if(s->Send("abc", 3, Duration(-1)) != 3) throw std::logic_error("bogus"); });
       r.step("op", [&] { if(s->Send("abc", 3, Duration(0)) != 3) throw std::logic_error("bogus"); });
       r.step("op", [&] { if(s->Send("abc", 3, Duration(50)) != 3) throw std::logic_error("bogus"); });
       r.step("op", [&] {
         auto got = s->Receive(buf, sizeof(buf), Duration(100));
         if(!got || *got != 5) throw std::logic_error("bogus");
       });
       r.step("op", [&] { (void)s->LocalAddress(); });
       r.step("op", [&] { if(s->PeerAddress().Port() != peer.port) throw std::logic_error("bogus"); });
       r.step("op", [&] { if(s->ReceiveBufferSize() == 0) throw std::logic_error("bogus"); });
       r.teardown([&] { s.reset(); });
     }},
    {"acceptor_listen", [](Run &r) {
       std::optional<Acceptor> acc;
       std::optional<std::pair<SocketTcp, Address>> got;
       int client = raw::socket(SOCK_STREAM);
       r.setup([&] {
         acc.emplace(loop0());
         rawListenOn(acc->impl->fd);
         raw::connect(client, acc->LocalAddress().Port());
         raw::waitReadable(acc->impl->fd);
       });
       r.step("accept", [&] {
         auto res = acc->Listen(Duration(100));
         if(!res) throw std::logic_error("bogus");
         got.emplace(std::move(*res));
       });
       r.step("op", [&] { (void)acc->LocalAddress(); });
       r.teardown([&] { got.reset(); acc.reset(); raw::close(client); });
     }},
    {"acceptor_listen_timeout", [](Run &r) {
       std::optional<Acceptor> acc;
       r.setup([&] { acc.emplace(loop0()); });
       r.step("op", [&] { if(acc->Listen(Duration(0))) throw std::logic_error("bogus"); });
       r.teardown([&] { acc.reset(); });
     }},
    // ---- buffered --------------------------------------------------------------------------------
    {"udp_buffered_ctor", [](Run &r) {
       std::optional<SocketUdp> s;
       std::optional<SocketUdpBuffered> b;
       r.setup([&] { s.emplace(loop0()); });
       r.step("consume", [&] { b.emplace(std::move(*s), 1U, 0U); });
       r.teardown([&] { b.reset(); s.reset(); });
     }},
    {"tcp_buffered_ctor", [](Run &r) {
       RawListener peer;
       std::optional<SocketTcp> s;
       std::optional<SocketTcpBuffered> b;
       r.setup([&] { s.emplace(peer.addr()); });
       r.step("consume", [&] { b.emplace(std::move(*s), 1U, 0U); });
       r.teardown([&] { b.reset(); s.reset(); });
     }},
    {"udp_buffered_ops", [](Run &r) {
       std::optional<SocketUdpBuffered> s;
       int peer = raw::socket(SOCK_DGRAM);
       uint16_t peerPort = raw::bindAny(peer);
       std::optional<Address> dst;
       r.setup([&] {
         s.emplace(SocketUdp(loop0()), 2U, 64U);
         dst.emplace("127.0.0.1:" + std::to_string(peerPort));
         raw::sendto(peer, s->LocalAddress().Port(), "hello", 5);
         raw::waitReadable(s->impl->sock->fd);
       });
       r.step("op", [&] { if(s->SendTo("abc", 3, *dst, Duration(-1)) != 3) throw std::logic_error("bogus"); });
       r.step("op", [&] {
         auto got = s->ReceiveFrom(Duration(100));
         if(!got || got->first->size() != 5) throw std::logic_error("bogus");
       });
       r.step("op", [&] { (void)s->LocalAddress(); });
       r.teardown([&] { s.reset(); raw::close(peer); });
     }},
    {"tcp_buffered_ops", [](Run &r) {
       RawListener peer;
       std::optional<SocketTcpBuffered> s;
       r.setup([&] {
         s.emplace(SocketTcp(peer.addr()), 2U, 64U);
         int a = peer.acceptOne();
         raw::send(a, "hello", 5);
         raw::waitReadable(s->impl->sock->fd);
       });
       r.step("op", [&] { if(s->Send("abc", 3, Duration(-1)) != 3) throw std::logic_error("bogus"); });
       r.step("op", [&] {
         auto got = s->Receive(Duration(100));
         if(!got || (*got)->size() != 5) throw std::logic_error("bogus");
       });
       r.step("op", [&] { (void)s->LocalAddress(); });
       r.step("op", [&] { (void)s->PeerAddress(); });
       r.teardown([&] { s.reset(); });
     }},
    // ---- driver ----------------------------------------------------------------------------------
    {"driver_ctor", [](Run &r) {
       std::optional<Driver> d;
       r.step("ctor", [&] { d.emplace(); });
       r.teardown([&] { d.reset(); });
     }},
    {"driver_step_empty", [](Run &r) {
       std::optional<Driver> d;
       r.setup([&] { d.emplace(); });
       r.step("drive", [&] { d->Step(Duration(0)); });
       r.teardown([&] { d.reset(); });
     }},
    {"driver_stop_step", [](Run &r) {
       std::optional<Driver> d;
       r.setup([&] { d.emplace(); });
       r.step("op", [&] { d->Stop(); });
       r.step("drive", [&] { d->Step(Duration(0)); });
       r.step("drive", [&] { d->Step(Duration(0)); });
       r.teardown([&] { d.reset(); });
     }},
    {"udp_async_attach", [](Run &r) {
       std::optional<Driver> d;
       std::optional<SocketUdpBuffered> b;
       std::optional<SocketUdpAsync> s;
       r.setup([&] { d.emplace(); b.emplace(SocketUdp(loop0()), 1U, 64U); });
       r.step("consume", [&] { s.emplace(std::move(*b), *d, [](BufferPtr, Address) {}); });
       r.step("op", [&] { if(s) (void)s->LocalAddress(); });
       // the driver must be usable after the attach, failed or not (no dangling registration)
       r.step("drive", [&] { d->Step(Duration(0)); });
       r.teardown([&] { s.reset(); b.reset(); d.reset(); });
     }},
    {"tcp_async_attach", [](Run &r) {
       RawListener peer;
       std::optional<Driver> d;
       std::optional<SocketTcpBuffered> b;
       std::optional<SocketTcpAsync> s;
       r.setup([&] { d.emplace(); b.emplace(SocketTcp(peer.addr()), 1U, 64U); });
       r.step("consume", [&] {
         s.emplace(std::move(*b), *d, [](BufferPtr) {}, [](Address, char const *) {});
       });
       r.step("op", [&] { if(s) (void)s->LocalAddress(); });
       r.step("op", [&] { if(s) (void)s->PeerAddress(); });
       r.step("drive", [&] { d->Step(Duration(0)); });
       r.teardown([&] { s.reset(); b.reset(); d.reset(); });
     }},
    {"acceptor_async_attach", [](Run &r) {
       std::optional<Driver> d;
       std::optional<Acceptor> a;
       std::optional<AcceptorAsync> s;
       r.setup([&] { d.emplace(); a.emplace(loop0()); });
       r.step("consume", [&] { s.emplace(std::move(*a), *d, [](SocketTcp, Address) {}); });
       r.step("op", [&] { if(s) (void)s->LocalAddress(); });
       r.step("drive", [&] { d->Step(Duration(0)); });
       r.teardown([&] { s.reset(); a.reset(); d.reset(); });
     }},
    {"tcp_async_recv", [](Run &r) {
       RawListener peer;
       std::optional<Driver> d;
       std::optional<SocketTcpAsync> s;
       r.setup([&] {
         d.emplace();
         s.emplace(SocketTcpBuffered(SocketTcp(peer.addr()), 1U, 64U), *d,
                   [](BufferPtr b) { g->events.push_back("receive " + std::to_string(b->size())); },
                   [](Address, char const *) { g->events.push_back("disconnect"); });
         int a = peer.acceptOne();
         raw::send(a, "hello", 5);
         raw::waitReadable(s->impl->buff->sock->fd);
       });
       r.step("drive", [&] { d->Step(Duration(0)); });
       r.step("drive", [&] { d->Step(Duration(0)); });
       r.teardown([&] { s.reset(); d.reset(); });
     }},
    {"tcp_async_send", [](Run &r) {
       RawListener peer;
       BufferPool pool(2U, 16U);
       std::optional<Driver> d;
       std::optional<SocketTcpAsync> s;
       std::future<void> f1, f2;
       r.setup([&] {
         d.emplace();
         s.emplace(SocketTcpBuffered(SocketTcp(peer.addr()), 1U, 64U), *d,
                   [](BufferPtr b) { g->events.push_back("receive " + std::to_string(b->size())); },
                   [](Address, char const *) { g->events.push_back("disconnect"); });
         (void)peer.acceptOne();
         auto b1 = pool.Get(); b1->assign("abc");
         auto b2 = pool.Get(); b2->assign("defg");
         f1 = s->Send(std::move(b1));
         f2 = s->Send(std::move(b2));
       });
       auto futs = [&] {
         for(auto *f : {&f1, &f2}) {
           auto st = futState(*f);
           if(!st.empty()) g->events.push_back("future " + st);
         }
       };
       r.step("drive", [&] { d->Step(Duration(0)); }, futs);
       r.step("drive", [&] { d->Step(Duration(0)); }, futs);
       r.step("drive", [&] { d->Step(Duration(0)); }, futs);
       r.teardown([&] { s.reset(); d.reset(); });
     }},
    {"udp_async_recv", [](Run &r) {
       std::optional<Driver> d;
       std::optional<SocketUdpAsync> s;
       int peer = raw::socket(SOCK_DGRAM);
       (void)raw::bindAny(peer);
       r.setup([&] {
         d.emplace();
         s.emplace(SocketUdpBuffered(SocketUdp(loop0()), 1U, 64U), *d,
                   [](BufferPtr b, Address) { g->events.push_back("receivefrom " + std::to_string(b->size())); });
         raw::sendto(peer, s->LocalAddress().Port(), "hello", 5);
         raw::waitReadable(s->impl->buff->sock->fd);
       });
       r.step("drive", [&] { d->Step(Duration(0)); });
       r.step("drive", [&] { d->Step(Duration(0)); });
       r.teardown([&] { s.reset(); d.reset(); raw::close(peer); });
     }},
    {"udp_async_send", [](Run &r) {
       BufferPool pool(2U, 16U);
       std::optional<Driver> d;
       std::optional<SocketUdpAsync> s;
       int peer = raw::socket(SOCK_DGRAM);
       uint16_t peerPort = raw::bindAny(peer);
       std::future<void> f1, f2;
       r.setup([&] {
         d.emplace();
         s.emplace(SocketUdpBuffered(SocketUdp(loop0()), 1U, 64U), *d,
                   [](BufferPtr b, Address) { g->events.push_back("receivefrom " + std::to_string(b->size())); });
         Address dst("127.0.0.1:" + std::to_string(peerPort));
         auto b1 = pool.Get(); b1->assign("abc");
         auto b2 = pool.Get(); b2->assign("defg");
         f1 = s->SendTo(std::move(b1), dst);
         f2 = s->SendTo(std::move(b2), dst);
       });
       auto futs = [&] {
         for(auto *f : {&f1, &f2}) {
           auto st = futState(*f);
           if(!st.empty()) g->events.push_back("future " + st);
         }
       };
       r.step("drive", [&] { d->Step(Duration(0)); }, futs);
       r.step("drive", [&] { d->Step(Duration(0)); }, futs);
       r.step("drive", [&] { d->Step(Duration(0)); }, futs);
       r.teardown([&] { s.reset(); d.reset(); raw::close(peer); });
     }},
    {"acceptor_async_accept", [](Run &r) {
       std::optional<Driver> d;
       std::optional<AcceptorAsync> s;
       std::vector<SocketTcp> got;
       int client = raw::socket(SOCK_STREAM);
       r.setup([&] {
         d.emplace();
         s.emplace(Acceptor(loop0()), *d, [&got](SocketTcp t, Address) {
           g->events.push_back("connect");
           got.emplace_back(std::move(t));
         });
         raw::connect(client, s->LocalAddress().Port());
         raw::waitReadable(s->impl->buff->sock->fd);
       });
       r.step("drive", [&] { d->Step(Duration(0)); });
       r.step("drive", [&] { d->Step(Duration(0)); });
       r.teardown([&] { got.clear(); s.reset(); d.reset(); raw::close(client); });
     }},
  };
  return m;
}

void runRounds(Run &r, Scen const &sc, int rounds)
{
  for(int i = 1; i <= rounds; ++i) {
    r.say("round " + std::to_string(i));
    sc(r);
    r.drain();
    auto open = vos::open_fds();
    auto errs = vos::ledger_errors();
    r.say("ledger open=" + std::to_string(open.size()) + " errs=" + std::to_string(errs.size()));
  }
}

void child(std::vector<std::string> const &w)
{
  auto it = scenarios().find(w.size() > 1 ? w[1] : "");
  if(it == scenarios().end()) { har::obs("badcase unknown scenario"); return; }
  auto const &sc = it->second;

  auto fresh = [] {
    vos::reset();
    vos::monotone_ordinals(true);
    vos::ledger_strict(true);
    vos::clobber_errno(true);
    vos::log_enable(true);
    vos::quiet(true);
  };

  std::map<long, int> armed;
  if(w[0] == "single" || w[0] == "pair" || w[0] == "probe") {
    // discovery: the fault-free trace of both rounds
    Run d0;
    d0.print = false;
    g = &d0;
    fresh();
    size_t len1 = 0;
    d0.say("round 0");
    sc(d0); d0.drain(); len1 = d0.names.size();
    sc(d0); d0.drain();
    auto pick = [&](long k, long sel) {
      auto const &l = errnosFor(d0.names[static_cast<size_t>(k)]);
      armed[k] = l[static_cast<size_t>(sel) % l.size()];
    };
    if(w[0] == "probe" && w.size() == 3) {
      // is round 1 of this scenario covered by the positions 0..k-1 the generator enumerates?
      if(static_cast<long>(len1) > std::stol(w[2])) har::obs("toolong len=" + std::to_string(len1));
      else har::obs("plan none len=" + std::to_string(len1));
      return;
    } else if(w[0] == "single" && w.size() == 4) {
      long k = std::stol(w[2]);
      if(k >= static_cast<long>(len1)) { har::obs("plan none len=" + std::to_string(len1)); return; }
      pick(k, std::stol(w[3]));
    } else if(w[0] == "pair" && w.size() == 6) {
      long k1 = std::stol(w[2]) % static_cast<long>(d0.names.size());
      long k2 = std::stol(w[3]) % static_cast<long>(d0.names.size());
      if(k1 == k2) { har::obs("plan none len=" + std::to_string(d0.names.size())); return; }
      pick(k1, std::stol(w[4]));
      pick(k2, std::stol(w[5]));
    } else { har::obs("badcase arguments"); return; }
  } else if(w[0] == "replay" && w.size() == 3) {
    std::string cur;
    for(char c : w[2] + ",") {
      if(c == ',') {
        auto p = cur.find(':');
        if(p != std::string::npos) armed[std::stol(cur.substr(0, p))] = std::stoi(cur.substr(p + 1));
        cur.clear();
      } else cur.push_back(c);
    }
  } else if(w[0] != "free") { har::obs("badcase verb"); return; }

  std::string plan = "plan";
  for(auto const &[p, e] : armed) plan += " " + std::to_string(p) + ":" + std::to_string(e);
  har::obs(armed.empty() ? "plan free" : plan);

  Run r;
  r.armed = armed;
  g = &r;
  fresh();
  for(auto const &[p, e] : armed) vos::fail_at(p, e);
  runRounds(r, sc, 2);
  har::obs("done calls=" + std::to_string(r.pos));
}

} // unnamed namespace

int main()
{
  return har::run_cases([](std::string const &, std::vector<std::string> const &ops) {
    for(auto const &line : ops) {
      auto w = har::words(line);
      if(w.empty()) continue;
      har::out(line);
      std::fflush(stdout);
      pid_t pid = fork();
      if(pid == 0) {
      ::alarm(60); // a history / scenario that hangs ends as 'crash signal 14' instead of blocking the check
        child(w);
        std::fflush(stdout);
        _exit(0);
      }
      int st = 0;
      waitpid(pid, &st, 0);
      if(WIFSIGNALED(st)) har::obs("crash signal " + std::to_string(WTERMSIG(st)));
      else if(WIFEXITED(st) && WEXITSTATUS(st) != 0) har::obs("crash exit " + std::to_string(WEXITSTATUS(st)));
    }
  });
}

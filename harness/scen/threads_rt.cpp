// C04 sanity net below the lock-level model: the same kind of management traffic with REAL threads
// (no cooperative scheduler), built with -fsanitize=thread (or address).  A data race or memory error
// reported by the sanitizer is the observable.  This is testing, labelled as such in the evidence.
#include "h/common.h"
#include "sockpuppet/socket_async.h"

#include <atomic>
#include <optional>
#include <random>
#include <thread>

using namespace sockpuppet;

int main()
{
  return har::run_cases([](std::string const &, std::vector<std::string> const &ops) {
    for(auto const &line : ops) {
      auto w = har::words(line);
      if(w.size() < 4 || w[0] != "rt") continue;
      har::out(line);
      unsigned seed = std::stoul(w[1]);
      int nthreads = std::stoi(w[2]);
      int iters = std::stoi(w[3]);
      Driver driver;
      BufferPool pool;
      std::atomic<int> handled{0}, tasks{0};
      std::thread drv([&]() { driver.Run(); });
      std::vector<std::thread> users;
      for(int t = 0; t < nthreads; ++t) {
        users.emplace_back([&, t]() {
          std::mt19937 rng(seed * 31 + t);
          std::optional<SocketUdpAsync> sock;
          std::optional<Address> addr;
          std::optional<ToDo> todo;
          for(int i = 0; i < iters; ++i) {
            switch(rng() % 8) {
            case 0:
              sock.emplace(SocketUdpBuffered(SocketUdp(Address("127.0.0.1:0")), 0, 64), driver,
                           [&](BufferPtr, Address) { ++handled; });
              addr.emplace(sock->LocalAddress());
              break;
            case 1: sock.reset(); break;
            case 2:
            case 3:
              if(sock) {
                auto b = pool.Get();
                b->assign("hello");
                (void)sock->SendTo(std::move(b), *addr);
              }
              break;
            case 4: todo.emplace(driver, [&]() { ++tasks; }, Duration(rng() % 3)); break;
            case 5: if(todo) todo->Cancel(); break;
            case 6: if(todo) todo->Shift(Duration(rng() % 3)); break;
            default: std::this_thread::yield(); break;
            }
          }
          todo.reset();
          sock.reset();
        });
      }
      for(auto &u : users) u.join();
      driver.Stop();
      drv.join();
      har::obs("rt done handled=" + std::to_string(handled.load() > 0) + " tasks=" + std::to_string(tasks.load() > 0));
    }
  });
}

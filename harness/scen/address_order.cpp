// C13 scenario interpreter: Addresses of every provenance (parsed in every spelling, from a port
// number, reported by real loopback sockets of every class, datagram sources, accept-reported
// peers, LocalAddresses()), their raw images, accessors, and the results of == != < std::hash,
// std::map and std::unordered_map on them.
//
// op lines (labels are chosen by the generator):
//   respell <label> <old> <str|hp|scheme|path|full|pair|bare>   -> text built from <old>'s accessors, parsed again
//   parse <label> <hexuri> | pair <label> <hexhost> <hexserv> | port <label> <n> | locals <prefix>
//   udp <name> <plain|buf|async> <bindlabel>            -> address <name>.l
//   dgram <label> <from> <to>                           -> address <label> (source reported to <to>)
//   acceptor <name> <plain|async> <bindlabel>           -> address <name>.l
//   connect <c> <plain|buf|async> <acceptor>            -> addresses <c>.cl <c>.cp <c>.rep <c>.sl <c>.sp
//   connectvia <c> <plain|buf|async> <acceptor> <hostlabel>   like connect, but to Host(<hostlabel>):Port(<acceptor>)
//   close <c>                                           -> address <c>.disc (async client: disconnect handler)
//   cmp <l1> <l2> | cmpall | maps
#include "h/common.h"

#include "address_impl.h" // internal header (as the repo's internals test does): raw image via impl->ForAny()
#include "sockpuppet/socket_async.h"

#include <arpa/inet.h>
#include <net/if.h>

#include <map>
#include <memory>
#include <optional>
#include <string_view>
#include <unordered_map>
#include <vector>

using namespace sockpuppet;

namespace {

std::string Image(Address const &a)
{
  auto v = a.impl->ForAny();
  return std::string(reinterpret_cast<char const *>(v.addr), static_cast<size_t>(v.addrLen));
}

std::string ExClass(std::exception const &e)
{
  if(dynamic_cast<std::invalid_argument const *>(&e)) return "invalid_argument";
  if(dynamic_cast<std::out_of_range const *>(&e)) return "out_of_range";
  if(dynamic_cast<std::logic_error const *>(&e)) return "logic_error";
  if(dynamic_cast<std::system_error const *>(&e)) return "system_error";
  if(dynamic_cast<std::runtime_error const *>(&e)) return "runtime_error";
  return "other";
}

std::string Hex64(size_t v)
{
  char buf[32];
  std::snprintf(buf, sizeof(buf), "%016zx", v);
  return buf;
}

struct UdpSock
{
  std::string kind;
  std::optional<SocketUdp> plain;
  std::optional<SocketUdpBuffered> buf;
  std::optional<SocketUdpAsync> async;
  std::vector<Address> sources; // async: reported by the receive handler

  Address Local() const
  {
    return plain ? plain->LocalAddress() : buf ? buf->LocalAddress() : async->LocalAddress();
  }
};

struct AccSock
{
  std::string kind;
  std::optional<Acceptor> plain;
  std::optional<AcceptorAsync> async;
  std::vector<std::pair<SocketTcp, Address>> accepted; // async: from the connect handler

  Address Local() const { return plain ? plain->LocalAddress() : async->LocalAddress(); }
};

struct Conn
{
  std::string kind;
  std::optional<SocketTcp> plain;
  std::optional<SocketTcpBuffered> buf;
  std::optional<SocketTcpAsync> async;
  std::optional<SocketTcp> server; // accepted side
  std::vector<Address> disconnects;

  Address Local() const { return plain ? plain->LocalAddress() : buf ? buf->LocalAddress() : async->LocalAddress(); }
  Address Peer() const { return plain ? plain->PeerAddress() : buf ? buf->PeerAddress() : async->PeerAddress(); }
};

struct Scen
{
  Driver driver;
  BufferPool pool;
  std::vector<std::pair<std::string, Address>> addrs; // in creation order
  std::map<std::string, std::unique_ptr<UdpSock>> udps;
  std::map<std::string, std::unique_ptr<AccSock>> accs;
  std::map<std::string, std::unique_ptr<Conn>> conns;

  Address const *Find(std::string const &label) const
  {
    for(auto const &p : addrs) {
      if(p.first == label) return &p.second;
    }
    return nullptr;
  }

  void Report(std::string const &label, Address const &a)
  {
    addrs.emplace_back(label, a);
    std::string host, serv, str;
    bool v6 = false;
    unsigned port = 0;
    try {
      host = a.Host();
      serv = a.Service();
      port = a.Port();
      v6 = a.IsV6();
      str = to_string(a);
    } catch(std::exception const &e) {
      har::obs("addrfail " + label + " " + ExClass(e));
      return;
    }
    // field tuple derived from the accessors only (inet_pton of Host(), scope from the %suffix)
    std::string lit = host;
    unsigned long scope = 0;
    if(auto pc = lit.find('%'); pc != std::string::npos) {
      auto sfx = lit.substr(pc + 1);
      lit.erase(pc);
      scope = if_nametoindex(sfx.c_str());
      if(scope == 0) scope = std::strtoul(sfx.c_str(), nullptr, 10);
    }
    unsigned char ipb[16];
    std::string ip;
    if(inet_pton(v6 ? AF_INET6 : AF_INET, lit.c_str(), ipb) == 1) {
      ip.assign(reinterpret_cast<char const *>(ipb), v6 ? 16 : 4);
    }
    auto img = Image(a);
    auto h = std::hash<Address>()(a);
    auto href = std::hash<std::string_view>()(std::string_view(img));
    har::obs("addr " + label + " " + har::hex(img) + " host=" + har::hex(host) + " serv=" + har::hex(serv) +
             " port=" + std::to_string(port) + " v6=" + (v6 ? "1" : "0") + " ip=" + har::hex(ip) +
             " scope=" + std::to_string(scope) + " hash=" + Hex64(h) + " href=" + Hex64(href) + " str=" + har::hex(str));
  }

  void Cmp(std::string const &l1, Address const &a, std::string const &l2, Address const &b)
  {
    bool eq = (a == b), ne = (a != b), lt = (a < b), gt = (b < a);
    bool heq = (std::hash<Address>()(a) == std::hash<Address>()(b));
    har::obs("cmp " + l1 + " " + l2 + " eq=" + (eq ? "1" : "0") + " ne=" + (ne ? "1" : "0") + " lt=" + (lt ? "1" : "0") +
             " gt=" + (gt ? "1" : "0") + " heq=" + (heq ? "1" : "0"));
  }

  void CmpLabels(std::string const &l1, std::string const &l2)
  {
    auto a = Find(l1);
    auto b = Find(l2);
    if(a && b) Cmp(l1, *a, l2, *b);
  }

  // let the driver deliver pending events until done() or the budget is used up
  template<typename Done>
  bool StepUntil(Done done)
  {
    for(int i = 0; i < 200 && !done(); ++i) driver.Step(Duration(20));
    return done();
  }
};

void HandleOp(Scen &sc, std::vector<std::string> const &w)
{
  if(w[0] == "parse" && w.size() == 3) {
    sc.Report(w[1], Address(har::unhex(w[2])));
  } else if(w[0] == "pair" && w.size() == 4) {
    sc.Report(w[1], Address(har::unhex(w[2]), har::unhex(w[3])));
  } else if(w[0] == "port" && w.size() == 3) {
    sc.Report(w[1], Address(static_cast<uint16_t>(std::stoul(w[2]))));
  } else if(w[0] == "locals" && w.size() == 2) {
    auto ls = Address::LocalAddresses();
    size_t i = 0;
    for(auto const &a : ls) sc.Report(w[1] + std::to_string(i++), a);
    har::obs("locals " + std::to_string(ls.size()));
  } else if(w[0] == "respell" && w.size() == 4) {
    // build a text spelling from the accessors of an existing address and parse it again
    auto old = sc.Find(w[2]);
    if(!old) { har::obs("skip"); return; }
    auto host = old->Host();
    auto serv = old->Service();
    bool v6 = old->IsV6();
    auto hp = (v6 ? "[" + host + "]" : host) + ":" + serv;
    if(w[3] == "pair") {
      har::obs("spelled " + har::hex(host + " " + serv));
      sc.Report(w[1], Address(host, serv));
      return;
    }
    std::string text;
    if(w[3] == "str") text = to_string(*old);
    else if(w[3] == "hp") text = hp;
    else if(w[3] == "scheme") text = "tcp://" + hp;
    else if(w[3] == "path") text = hp + "/some/path";
    else if(w[3] == "full") text = "x_1://" + hp + "/p/a?q=1:2#f";
    else if(w[3] == "bare" && !v6 && (serv == "80")) text = "http://" + host;
    else { har::obs("skip"); return; }
    har::obs("spelled " + har::hex(text));
    sc.Report(w[1], Address(text));
  } else if(w[0] == "udp" && w.size() == 4) {
    auto bind = sc.Find(w[3]);
    if(!bind) { har::obs("skip"); return; }
    auto u = std::make_unique<UdpSock>();
    u->kind = w[2];
    auto *raw = u.get();
    if(w[2] == "plain") u->plain.emplace(*bind);
    else if(w[2] == "buf") u->buf.emplace(SocketUdp(*bind), 0U, 1500U);
    else u->async.emplace(SocketUdpBuffered(SocketUdp(*bind), 0U, 1500U), sc.driver,
                          [raw](BufferPtr, Address src) { raw->sources.push_back(std::move(src)); });
    sc.Report(w[1] + ".l", u->Local());
    sc.udps[w[1]] = std::move(u);
  } else if(w[0] == "dgram" && w.size() == 4) {
    auto f = sc.udps.find(w[2]);
    auto t = sc.udps.find(w[3]);
    if(f == sc.udps.end() || t == sc.udps.end()) { har::obs("skip"); return; }
    auto dst = t->second->Local();
    char const payload[] = "x";
    if(f->second->plain) f->second->plain->SendTo(payload, 1, dst);
    else if(f->second->buf) f->second->buf->SendTo(payload, 1, dst);
    else {
      auto b = sc.pool.Get();
      b->assign("x");
      auto fut = f->second->async->SendTo(std::move(b), dst);
      sc.StepUntil([&]() { return fut.wait_for(std::chrono::seconds(0)) == std::future_status::ready; });
      fut.get();
    }
    char rx[16];
    if(t->second->plain) {
      if(auto r = t->second->plain->ReceiveFrom(rx, sizeof(rx), Duration(2000))) sc.Report(w[1], r->second);
      else har::obs("fail dgram-not-received");
    } else if(t->second->buf) {
      if(auto r = t->second->buf->ReceiveFrom(Duration(2000))) sc.Report(w[1], r->second);
      else har::obs("fail dgram-not-received");
    } else {
      auto *raw = t->second.get();
      auto before = raw->sources.size();
      if(sc.StepUntil([&]() { return raw->sources.size() > before; })) sc.Report(w[1], raw->sources.back());
      else har::obs("fail dgram-not-received");
    }
  } else if(w[0] == "acceptor" && w.size() == 4) {
    auto bind = sc.Find(w[3]);
    if(!bind) { har::obs("skip"); return; }
    auto a = std::make_unique<AccSock>();
    a->kind = w[2];
    auto *raw = a.get();
    if(w[2] == "plain") {
      a->plain.emplace(*bind);
      (void)a->plain->Listen(Duration(0)); // listen() happens inside Listen()
    } else {
      a->async.emplace(Acceptor(*bind), sc.driver,
                       [raw](SocketTcp s, Address peer) { raw->accepted.emplace_back(std::move(s), std::move(peer)); });
    }
    sc.Report(w[1] + ".l", a->Local());
    sc.accs[w[1]] = std::move(a);
  } else if((w[0] == "connect" && w.size() == 4) || (w[0] == "connectvia" && w.size() == 5)) {
    auto ai = sc.accs.find(w[3]);
    if(ai == sc.accs.end()) { har::obs("skip"); return; }
    auto &acc = *ai->second;
    auto c = std::make_unique<Conn>();
    c->kind = w[2];
    auto *raw = c.get();
    auto dst = acc.Local();
    if(w[0] == "connectvia") {
      // reach the acceptor through another of the host's addresses (e.g. IPv4 loopback -> dual-stack wildcard listener)
      auto via = sc.Find(w[4]);
      if(!via) { har::obs("skip"); return; }
      dst = Address(via->Host(), std::to_string(dst.Port()));
    }
    if(w[2] == "plain") c->plain.emplace(dst);
    else if(w[2] == "buf") c->buf.emplace(SocketTcp(dst), 0U, 1500U);
    else c->async.emplace(SocketTcpBuffered(SocketTcp(dst), 0U, 1500U), sc.driver,
                          [](BufferPtr) {},
                          [raw](Address peer, char const *) { raw->disconnects.push_back(std::move(peer)); });
    std::optional<Address> reported;
    if(acc.plain) {
      if(auto r = acc.plain->Listen(Duration(2000))) {
        c->server.emplace(std::move(r->first));
        reported = r->second;
      }
    } else {
      if(sc.StepUntil([&]() { return !acc.accepted.empty(); })) {
        c->server.emplace(std::move(acc.accepted.back().first));
        reported = acc.accepted.back().second;
        acc.accepted.pop_back();
      }
    }
    if(!reported) { har::obs("fail not-accepted"); return; }
    auto const &n = w[1];
    sc.Report(n + ".cl", c->Local());
    sc.Report(n + ".cp", c->Peer());
    sc.Report(n + ".rep", *reported);
    sc.Report(n + ".sl", c->server->LocalAddress());
    sc.Report(n + ".sp", c->server->PeerAddress());
    sc.CmpLabels(n + ".cl", n + ".rep");
    sc.CmpLabels(n + ".cl", n + ".sp");
    sc.CmpLabels(n + ".rep", n + ".sp");
    sc.CmpLabels(n + ".cp", n + ".sl");
    sc.CmpLabels(n + ".cp", w[3] + ".l");
    sc.conns[n] = std::move(c);
  } else if(w[0] == "close" && w.size() == 2) {
    auto ci = sc.conns.find(w[1]);
    if(ci == sc.conns.end()) { har::obs("skip"); return; }
    auto &c = *ci->second;
    c.server.reset();
    if(c.async) {
      auto *raw = &c;
      if(sc.StepUntil([&]() { return !raw->disconnects.empty(); })) {
        sc.Report(w[1] + ".disc", raw->disconnects.back());
        sc.CmpLabels(w[1] + ".disc", w[1] + ".cp");
      } else {
        har::obs("fail no-disconnect");
      }
    }
    sc.conns.erase(ci);
  } else if(w[0] == "cmp" && w.size() == 3) {
    sc.CmpLabels(w[1], w[2]);
  } else if(w[0] == "cmpall") {
    for(size_t i = 0; i < sc.addrs.size(); ++i) {
      for(size_t j = i; j < sc.addrs.size(); ++j) {
        sc.Cmp(sc.addrs[i].first, sc.addrs[i].second, sc.addrs[j].first, sc.addrs[j].second);
      }
    }
  } else if(w[0] == "maps") {
    std::map<Address, std::string> om;
    std::unordered_map<Address, std::string> um;
    for(auto const &p : sc.addrs) {
      om.emplace(p.second, p.first); // first label wins
      um.emplace(p.second, p.first);
    }
    for(auto const &p : sc.addrs) {
      auto oi = om.find(p.second);
      auto ui = um.find(p.second);
      har::obs("map " + p.first + " " + (oi == om.end() ? std::string("none") : oi->second) + " " +
               (ui == um.end() ? std::string("none") : ui->second));
    }
    std::string order = "maporder";
    for(auto const &p : om) order += " " + p.second;
    har::obs(order);
    har::obs("mapsize " + std::to_string(om.size()) + " " + std::to_string(um.size()));
  } else {
    har::obs("skip");
  }
}

} // unnamed namespace

int main()
{
  return har::run_cases([](std::string const &, std::vector<std::string> const &ops) {
    Scen sc;
    for(auto const &line : ops) {
      auto w = har::words(line);
      if(w.empty()) continue;
      har::out(line);
      try {
        HandleOp(sc, w);
      } catch(std::exception const &e) {
        har::obs("throw " + ExClass(e) + " " + har::hex(e.what()));
      } catch(...) {
        har::obs("throw nonstd");
      }
    }
    // sockets before the driver (members are destroyed in reverse order, the driver is first)
    sc.conns.clear();
    sc.udps.clear();
    sc.accs.clear();
  });
}

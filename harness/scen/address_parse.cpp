// C11 / C12 scenario interpreter: Address construction from arbitrary byte strings.
//
// Every construction runs on a thread with a deliberately small stack (option --stack <KiB>,
// default 256; 0 = caller's stack), so stack use that grows with the input length shows at
// kilobytes instead of megabytes.  The interposed getaddrinfo (vos, offline mode) records the
// (node, service, flags) the library hands over - the correspondence observable.
//
// op lines:
//   uri <hex>                              Address(uri)
//   pair <hexhost> <hexserv>               Address(host, serv)
//   lit <v6> <hexip> <scope> <port> <hexscheme> <hexpath>
//                                          all documented spellings of one literal endpoint (echoed as uri/pair ops)
//   name <v6> <hexip> <scope> <hexname> <port>
//                                          service-name spellings of a well-known port (echoed as uri/pair ops)
//   ladder <hexprefix> <hexunit> <n> <hexsuffix>
//                                          Address(prefix + unit*n + suffix) in a forked child (signal / exit observable)
//   ladderpair <host|serv> <hexprefix> <hexunit> <n> <hexsuffix>
//                                          the same text as host (service "80") or as service (host "localhost")
// observations:
//   -> gai node=<enc> serv=<enc> flags=<n> ret=<r>     first getaddrinfo call of the construction
//   -> legacy <enc host> <enc serv> <0|1> | legacy nomatch   the pre-fix regex dissection (uri ops <= 2000 bytes)
//   -> ok host=<hex> serv=<hex> port=<n> v6=<0|1> str=<hex> reparse=<eq|ne|throw>
//   -> throw <invalid_argument|out_of_range|logic_error|system_error|runtime_error|other|nonstd>
//   -> died <sig=N|exit=N|timeout>                       (ladder child)
// enc = hex for up to 65536 bytes, else #<length>:<fnv1a-64>; "null" for a null pointer.
#include "h/common.h"
#include "legacy/legacy_uri.h"
#include "vos/vos.h"

#include "sockpuppet/address.h"

#include <arpa/inet.h>
#include <net/if.h>
#include <pthread.h>
#include <signal.h>
#include <sys/wait.h>
#include <unistd.h>

#include <cstring>
#include <functional>
#include <optional>
#include <system_error>
#include <vector>

using namespace sockpuppet;

namespace {

size_t g_stackKiB = 256;

std::string Enc(std::string const &s)
{
  if(s.size() <= 65536) return har::hex(s);
  uint64_t h = 14695981039346656037ULL;
  for(unsigned char c : s) { h ^= c; h *= 1099511628211ULL; }
  char buf[64];
  std::snprintf(buf, sizeof(buf), "#%zu:%016llx", s.size(), static_cast<unsigned long long>(h));
  return buf;
}

std::string ExClass(std::exception const &e)
{
  if(dynamic_cast<std::invalid_argument const *>(&e)) return "invalid_argument";
  if(dynamic_cast<std::out_of_range const *>(&e)) return "out_of_range";
  if(dynamic_cast<std::logic_error const *>(&e)) return "logic_error";
  if(dynamic_cast<std::system_error const *>(&e)) return "system_error";
  if(dynamic_cast<std::runtime_error const *>(&e)) return "runtime_error";
  return "other";
}

// run f on a thread with g_stackKiB of stack
void OnSmallStack(std::function<void()> f)
{
  if(g_stackKiB == 0) { f(); return; }
  pthread_attr_t attr;
  pthread_attr_init(&attr);
  pthread_attr_setstacksize(&attr, g_stackKiB * 1024);
  pthread_t th;
  auto tramp = [](void *p) -> void * { (*static_cast<std::function<void()> *>(p))(); return nullptr; };
  if(pthread_create(&th, &attr, tramp, &f) != 0) { f(); return; }
  pthread_join(th, nullptr);
  pthread_attr_destroy(&attr);
}

// first "getaddrinfo node=.. serv=.. flags=.. -> r" line of the vos log, re-encoded
std::string FirstGai(std::vector<std::string> const &log)
{
  for(auto const &l : log) {
    if(l.rfind("getaddrinfo node=", 0) != 0) continue;
    auto field = [&](char const *key, char stop) {
      auto p = l.find(key);
      auto b = p + std::strlen(key);
      auto e = l.find(stop, b);
      return l.substr(b, e == std::string::npos ? std::string::npos : e - b);
    };
    auto reenc = [](std::string const &h) { return (h == "null") ? h : Enc(har::unhex(h)); };
    auto arrow = l.rfind("-> ");
    return "gai node=" + reenc(field("node=", ' ')) + " serv=" + reenc(field("serv=", ' ')) +
           " flags=" + field("flags=", ' ') + " ret=" + l.substr(arrow + 3);
  }
  return {};
}

// watchdog: a construction that does not return is reported as a hang (the property says "never hangs")
void OnAlarm(int)
{
  static char const msg[] = "-> hang construction did not return within 3 s\n";
  ssize_t r = write(1, msg, sizeof(msg) - 1);
  (void)r;
  _exit(97);
}

struct Outcome
{
  std::optional<Address> addr;
  std::vector<std::string> lines; // observation lines (without "-> ")
};

// construct (on the small stack), report gai / outcome / accessors / re-parse
Outcome Construct(std::function<Address()> make)
{
  Outcome o;
  vos::log_enable(true);
  (void)vos::take_log();
  std::string outcome;
  signal(SIGALRM, OnAlarm);
  alarm(3);
  OnSmallStack([&]() {
    try {
      o.addr.emplace(make());
    } catch(std::exception const &e) {
      outcome = "throw " + ExClass(e);
    } catch(...) {
      outcome = "throw nonstd";
    }
  });
  alarm(0);
  auto gai = FirstGai(vos::take_log());
  vos::log_enable(false);
  if(!gai.empty()) o.lines.push_back(gai);
  if(o.addr) {
    try {
      auto host = o.addr->Host();
      auto serv = o.addr->Service();
      auto port = o.addr->Port();
      bool v6 = o.addr->IsV6();
      auto str = to_string(*o.addr);
      std::string re;
      try {
        Address again(str);
        re = (again == *o.addr && !(again != *o.addr) && std::hash<Address>()(again) == std::hash<Address>()(*o.addr)) ? "eq" : "ne";
      } catch(std::exception const &) {
        re = "throw";
      }
      outcome = "ok host=" + har::hex(host) + " serv=" + har::hex(serv) + " port=" + std::to_string(port) +
                " v6=" + (v6 ? "1" : "0") + " str=" + har::hex(str) + " reparse=" + re;
    } catch(std::exception const &e) {
      outcome = "accessorthrow " + ExClass(e);
    }
  }
  o.lines.push_back(outcome);
  return o;
}

std::string LegacyLine(std::string const &uri)
{
  legacy::UriDissect d(uri);
  if(!d.matched) return "legacy nomatch";
  return "legacy " + Enc(d.host) + " " + Enc(d.serv) + " " + (d.numericServ ? "1" : "0");
}

Outcome DoUri(std::string const &uri, bool withLegacy)
{
  har::out("uri " + har::hex(uri));
  auto o = Construct([&]() { return Address(uri); });
  for(auto const &l : o.lines) har::obs(l);
  if(withLegacy && !uri.empty() && uri.size() <= 2000) har::obs(LegacyLine(uri)); // regex on the caller's (large) stack
  return o;
}

Outcome DoPair(std::string const &host, std::string const &serv)
{
  har::out("pair " + har::hex(host) + " " + har::hex(serv));
  auto o = Construct([&]() { return Address(host, serv); });
  for(auto const &l : o.lines) har::obs(l);
  return o;
}

std::string Repeat(std::string const &unit, size_t n)
{
  std::string r;
  r.reserve(unit.size() * n);
  for(size_t i = 0; i < n; ++i) r += unit;
  return r;
}

// literal text the harness's own way (ground truth independent of the library)
std::string LiteralText(bool v6, std::string const &ip, unsigned scope)
{
  char buf[INET6_ADDRSTRLEN + 1] = {};
  if(!inet_ntop(v6 ? AF_INET6 : AF_INET, ip.data(), buf, sizeof(buf))) return {};
  std::string h = buf;
  if(v6 && scope) {
    char name[IF_NAMESIZE + 1] = {};
    if(if_indextoname(scope, name)) h += std::string("%") + name;
    else h += "%" + std::to_string(scope);
  }
  return h;
}

void Group(char const *kind, std::string const &h, unsigned port, bool v6, std::vector<Outcome> const &outs)
{
  bool alleq = true, allok = true;
  Address const *first = nullptr;
  for(auto const &o : outs) {
    if(!o.addr) { allok = false; continue; }
    if(!first) { first = &*o.addr; continue; }
    if(!(*o.addr == *first) || (*o.addr != *first) || (*first < *o.addr) || (*o.addr < *first) ||
       std::hash<Address>()(*o.addr) != std::hash<Address>()(*first)) alleq = false;
  }
  har::obs(std::string(kind) + "end n=" + std::to_string(outs.size()) + " allok=" + (allok ? "1" : "0") + " alleq=" + (alleq ? "1" : "0"));
  (void)h; (void)port; (void)v6;
}

void RunChild(std::function<void()> body)
{
  std::fflush(stdout);
  pid_t pid = fork();
  if(pid == 0) {
    body();
    std::fflush(stdout);
    _exit(0);
  }
  int status = 0;
  int waited = 0;
  for(;;) {
    pid_t r = waitpid(pid, &status, WNOHANG);
    if(r == pid) break;
    if(r < 0) { status = -1; break; }
    if(waited > 120000) { kill(pid, SIGKILL); waitpid(pid, &status, 0); har::obs("died timeout"); return; }
    usleep(2000);
    waited += 2;
  }
  if(WIFSIGNALED(status)) har::obs("died sig=" + std::to_string(WTERMSIG(status)));
  else if(WIFEXITED(status) && WEXITSTATUS(status) != 0) har::obs("died exit=" + std::to_string(WEXITSTATUS(status)));
}

} // unnamed namespace

int main(int argc, char **argv)
{
  for(int i = 1; i + 1 < argc; ++i) {
    if(std::string(argv[i]) == "--stack") g_stackKiB = std::stoul(argv[i + 1]);
  }
  return har::run_cases([](std::string const &, std::vector<std::string> const &ops) {
    vos::reset();
    vos::gai_offline(true);
    vos::ledger_track(false);
    for(auto const &line : ops) {
      auto w = har::words(line);
      if(w.empty()) continue;
      if(w[0] == "uri" && w.size() == 2) {
        DoUri(har::unhex(w[1]), true);
      } else if(w[0] == "pair" && w.size() == 3) {
        DoPair(har::unhex(w[1]), har::unhex(w[2]));
      } else if(w[0] == "lit" && w.size() == 7) {
        bool v6 = (w[1] == "1");
        auto ip = har::unhex(w[2]);
        unsigned scope = static_cast<unsigned>(std::stoul(w[3]));
        unsigned port = static_cast<unsigned>(std::stoul(w[4]));
        auto scheme = har::unhex(w[5]);
        auto path = har::unhex(w[6]);
        auto h = LiteralText(v6, ip, scope);
        har::out(line);
        har::obs("litbegin host=" + har::hex(h) + " port=" + std::to_string(port) + " v6=" + (v6 ? "1" : "0"));
        auto p = std::to_string(port);
        std::vector<Outcome> outs;
        if(!v6) {
          outs.push_back(DoUri(h + ":" + p, true));
          outs.push_back(DoUri(scheme + "://" + h + ":" + p, true));
          outs.push_back(DoUri(h + ":" + p + "/" + path, true));
        }
        outs.push_back(DoUri("[" + h + "]:" + p, true));
        outs.push_back(DoUri(scheme + "://[" + h + "]:" + p, true));
        outs.push_back(DoUri("[" + h + "]:" + p + "/" + path, true));
        outs.push_back(DoUri(scheme + "://[" + h + "]:" + p + "/" + path, true));
        outs.push_back(DoPair(h, p));
        if(port == 0) {
          // the spellings without any service: "host", "host/path" (the first colon of the string may then sit inside the path)
          // (documented for plain hosts only: "[IPv6-host]" without a service is not among the documented formats)
          if(!v6) {
            outs.push_back(DoUri(h, true));
            outs.push_back(DoUri(h + "/" + path, true));
          }
        }
        Group("lit", h, port, v6, outs);
      } else if(w[0] == "name" && w.size() == 6) {
        bool v6 = (w[1] == "1");
        auto ip = har::unhex(w[2]);
        unsigned scope = static_cast<unsigned>(std::stoul(w[3]));
        auto name = har::unhex(w[4]);
        unsigned port = static_cast<unsigned>(std::stoul(w[5]));
        auto h = LiteralText(v6, ip, scope);
        har::out(line);
        har::obs("litbegin host=" + har::hex(h) + " port=" + std::to_string(port) + " v6=" + (v6 ? "1" : "0"));
        std::vector<Outcome> outs;
        outs.push_back(DoUri("[" + h + "]:" + std::to_string(port), true));
        outs.push_back(DoUri(name + "://" + h, true));
        outs.push_back(DoUri(name + "://" + h + "/index.html", true));
        outs.push_back(DoPair(h, name));
        Group("lit", h, port, v6, outs);
      } else if(w[0] == "ladder" && w.size() == 5) {
        har::out(line);
        auto uri = har::unhex(w[1]) + Repeat(har::unhex(w[2]), std::stoull(w[3])) + har::unhex(w[4]);
        RunChild([&]() {
          auto o = Construct([&]() { return Address(uri); });
          for(auto const &l : o.lines) har::obs(l);
        });
      } else if(w[0] == "ladderpair" && w.size() == 6) {
        har::out(line);
        auto text = har::unhex(w[2]) + Repeat(har::unhex(w[3]), std::stoull(w[4])) + har::unhex(w[5]);
        bool asHost = (w[1] == "host");
        RunChild([&]() {
          auto o = Construct([&]() { return asHost ? Address(text, "80") : Address("localhost", text); });
          for(auto const &l : o.lines) har::obs(l);
        });
      }
    }
  });
}

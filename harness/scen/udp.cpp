// C09 scenario interpreter: UDP sockets of all three API levels (basic / buffered / async) bound to
// loopback (IPv4 or IPv6), m senders x n receivers, one driver; sendto script (fail errno / short k /
// wait timeout under the virtual clock); every result, report (length, hash, source ordinal), future and
// pool occupancy is printed.
#include "h/common.h"
#include "vos/vos.h"

#include "socket_async_impl.h" // internal headers (as the repo's internals test does): name the descriptors
#include "socket_buffered_impl.h"
#include "socket_impl.h"
#include "sockpuppet/socket_async.h"

#include <algorithm>
#include <future>
#include <map>
#include <memory>
#include <optional>
#include <poll.h>
#include <sys/socket.h>
#include <system_error>
#include <unistd.h>

using namespace sockpuppet;

namespace {

unsigned char Pat(long id, size_t j)
{
  return static_cast<unsigned char>((id * 37 + static_cast<long>(j) * 11 + static_cast<long>(j / 251) * 3 + 1) & 0xff);
}

uint64_t Fnv(char const *p, size_t n)
{
  uint64_t h = 14695981039346656037ULL;
  for(size_t i = 0; i < n; ++i) { h ^= static_cast<unsigned char>(p[i]); h *= 1099511628211ULL; }
  return h;
}

struct Sock
{
  std::string kind;
  std::optional<SocketUdp> basic;
  std::optional<SocketUdpBuffered> buff;
  std::optional<SocketUdpAsync> async;
  int fd = -1;
  uint16_t port = 0;
  std::optional<Address> addr;
};

struct Scen
{
  bool v6 = false;
  std::unique_ptr<Driver> driver;
  std::unique_ptr<BufferPool> pool;
  size_t poolN = 64;
  std::map<long, Sock> socks;
  std::map<uint16_t, long> ordOfPort;
  std::vector<long> ids;
  std::map<long, std::shared_future<void>> futs;
  std::map<void const *, long> owner;
  std::map<long, bool> returned;
  std::vector<long> retOrder;
  std::vector<std::string> events;
  // every source Address a receive handed out, with the sender it named at that moment: the property says the SOURCE of a
  // datagram is preserved - an Address the user keeps must go on naming that sender after later receives
  std::vector<std::pair<Address, std::string>> keptSources;

  std::string Keep(Address const &from)
  {
    auto ord = SrcOrd(from);
    keptSources.emplace_back(from, ord);
    return ord;
  }

  // empty = all kept source addresses still name the sender they named when they were reported
  std::string KeptSourcesChanged() const
  {
    for(auto const &k : keptSources) {
      auto now = SrcOrd(k.first);
      if(now != k.second) return "a source address reported as sender " + k.second + " now names sender " + now;
    }
    return "";
  }

  std::string Host() const { return v6 ? "::1" : "127.0.0.1"; }

  std::string SrcOrd(Address const &a) const
  {
    if(a.Host() != Host()) return "?host:" + a.Host();
    auto it = ordOfPort.find(a.Port());
    return it == ordOfPort.end() ? std::string("?") : std::to_string(it->second);
  }

  void Open(long i, std::vector<std::string> const &w)
  {
    auto &s = socks[i];
    s.kind = w[2];
    SocketUdp u(Address(Host(), "0"));
    s.fd = u.impl->fd;
    auto local = u.LocalAddress();
    s.port = local.Port();
    s.addr = local;
    ordOfPort[s.port] = i;
    vos::name_fd(s.fd, "s" + std::to_string(i));
    if(s.kind == "basic") {
      s.basic.emplace(std::move(u));
    } else if(s.kind == "buff") {
      s.buff.emplace(std::move(u), std::stoul(w[3]), std::stoul(w[4]));
    } else {
      s.async.emplace(SocketUdpBuffered(std::move(u), std::stoul(w[3]), std::stoul(w[4])), *driver,
                      [this, i](BufferPtr b, Address from) {
                        events.push_back("recv " + std::to_string(i) + " " + std::to_string(b->size()) + " " +
                                         std::to_string(Fnv(b->data(), b->size())) + " " + Keep(from));
                      });
    }
    // the property's "receive queue not overrun": make room (after the library captured its rxBufSize)
    int big = 8 << 20;
    ::setsockopt(s.fd, SOL_SOCKET, SO_RCVBUFFORCE, &big, sizeof(big));
  }

  void ProbePool()
  {
    std::vector<BufferPtr> got;
    for(;;) {
      try { got.push_back(pool->Get()); } catch(std::runtime_error const &) { break; }
      if(got.size() > poolN) break;
    }
    std::vector<long> now;
    for(auto const &b : got) {
      auto it = owner.find(b.get());
      if(it != owner.end() && !returned[it->second]) { returned[it->second] = true; now.push_back(it->second); }
    }
    std::sort(now.begin(), now.end());
    for(long i : now) retOrder.push_back(i);
    while(!got.empty()) got.pop_back();
  }

  static std::string Letter(std::shared_future<void> const &f)
  {
    if(f.wait_for(std::chrono::seconds(0)) != std::future_status::ready) return "p";
    try { f.get(); return "v"; }
    catch(std::future_error const &e) { return e.code() == std::future_errc::broken_promise ? "b" : "x"; }
    // note: DriverSendTo stores make_exception_ptr(runtime_error const &): the system_error is sliced to runtime_error
    catch(std::runtime_error const &) { return "e"; }
    catch(std::exception const &) { return "x"; }
  }

  void State()
  {
    ProbePool();
    std::string f;
    for(long id : ids) f += Letter(futs.at(id));
    std::string r;
    for(long id : retOrder) r += (r.empty() ? "" : ",") + std::to_string(id);
    har::obs("st fut=" + (f.empty() ? std::string("-") : f) + " ret=" + (r.empty() ? std::string("-") : r));
  }

  std::string Payload(long m, size_t len)
  {
    std::string p(len, '\0');
    for(size_t j = 0; j < len; ++j) p[j] = static_cast<char>(Pat(m, j));
    return p;
  }

  void Script(int fd, std::vector<std::string> const &w, size_t at)
  {
    if(w.size() <= at || w[at] == "pass") return;
    if(w[at] == "fail") vos::push("sendto", fd, "fail", std::stol(w[at + 1]));
    else if(w[at] == "short") vos::push("sendto", fd, "short", std::stol(w[at + 1]));
    else if(w[at] == "timeout") vos::push("poll", fd, "timeout");
  }

  template<typename Fn>
  void Guarded(Fn fn)
  {
    try {
      fn();
    } catch(std::system_error const &e) {
      har::obs("throw system " + std::to_string(e.code().value()));
    } catch(std::logic_error const &e) {
      har::obs(std::string("throw logic ") + e.what());
    } catch(std::exception const &e) {
      har::obs(std::string("throw other ") + e.what());
    }
  }

  void SendTo(std::vector<std::string> const &w)
  {
    long i = std::stol(w[1]), j = std::stol(w[2]), m = std::stol(w[3]);
    size_t len = std::stoul(w[4]);
    long T = std::stol(w[5]);
    auto &s = socks.at(i);
    auto p = Payload(m, len);
    Script(s.fd, w, 6);
    Guarded([&]() {
      size_t n = s.basic ? s.basic->SendTo(p.data(), p.size(), *socks.at(j).addr, Duration(T))
                         : s.buff->SendTo(p.data(), p.size(), *socks.at(j).addr, Duration(T));
      har::obs("ret " + std::to_string(n));
    });
    vos::clear_script();
  }

  void ASend(std::vector<std::string> const &w)
  {
    long i = std::stol(w[1]), j = std::stol(w[2]), m = std::stol(w[3]);
    size_t len = std::stoul(w[4]);
    BufferPtr b;
    try { b = pool->Get(); } catch(std::runtime_error const &) { har::obs("nobuf"); return; }
    owner[b.get()] = m;
    returned[m] = false;
    b->assign(Payload(m, len));
    ids.push_back(m);
    futs.emplace(m, socks.at(i).async->SendTo(std::move(b), *socks.at(j).addr).share());
  }

  void Step(std::vector<std::string> const &w)
  {
    Script(-1, w, 1);
    (void)vos::take_log();
    vos::log_enable(true);
    events.clear();
    Guarded([&]() { driver->Step(Duration(0)); });
    vos::log_enable(false);
    vos::clear_script();
    for(auto const &l : vos::take_log()) {
      if(l.rfind("sendto s", 0) != 0) continue;
      auto sp = l.find(' ', 7);
      std::string who = l.substr(8, sp - 8);
      auto lp = l.find("len=");
      auto le = l.find(' ', lp);
      auto arrow = l.find("-> ");
      std::string len = l.substr(lp + 4, le - lp - 4);
      std::string res = l.substr(arrow + 3);
      if(res.rfind("-1", 0) == 0) har::obs("sys sendto " + who + " " + len + " fail " + res.substr(res.find("errno=") + 6));
      else har::obs("sys sendto " + who + " " + len + " " + res);
    }
    for(auto const &e : events) har::obs("ev " + e);
  }

  void Recv(std::vector<std::string> const &w)
  {
    long i = std::stol(w[1]);
    size_t size = std::stoul(w[2]);
    long T = std::stol(w[3]);
    auto &s = socks.at(i);
    if(T < 0) { // an unlimited receive on an empty queue would wait forever: look first
      pollfd p{s.fd, POLLIN, 0};
      if(::poll(&p, 1, 0) <= 0) { har::obs("skipped"); return; }
    }
    Guarded([&]() {
      if(s.basic) {
        std::string buf(size, '\0');
        auto r = s.basic->ReceiveFrom(buf.data(), buf.size(), Duration(T));
        if(!r) { har::obs("none"); return; }
        har::obs("got " + std::to_string(r->first) + " " + std::to_string(Fnv(buf.data(), std::min(r->first, size))) + " " + Keep(r->second));
      } else {
        auto r = s.buff->ReceiveFrom(Duration(T));
        if(!r) { har::obs("none"); return; }
        har::obs("got " + std::to_string(r->first->size()) + " " + std::to_string(Fnv(r->first->data(), r->first->size())) + " " + Keep(r->second));
      }
    });
  }
};

} // unnamed namespace

int main()
{
  return har::run_cases([](std::string const &, std::vector<std::string> const &ops) {
    vos::reset();
    vos::virtual_time(true);
    Scen sc;
    sc.driver = std::make_unique<Driver>();
    sc.pool = std::make_unique<BufferPool>(sc.poolN, 0U);
    for(auto const &line : ops) {
      auto w = har::words(line);
      if(w.empty()) continue;
      auto has = [&](size_t k) { return w.size() > k && sc.socks.count(std::stol(w[k])); };
      auto kind = [&](size_t k) { return sc.socks.at(std::stol(w[k])).kind; };
      bool can = (w[0] == "fam" && w.size() == 2 && sc.socks.empty()) ||
                 (w[0] == "sock" && w.size() >= 3 && !has(1) && (w[2] == "basic" || w.size() >= 5)) ||
                 (w[0] == "sendto" && w.size() >= 7 && has(1) && has(2) && kind(1) != "async") ||
                 (w[0] == "asend" && w.size() >= 5 && has(1) && has(2) && kind(1) == "async" && !sc.futs.count(std::stol(w[3]))) ||
                 (w[0] == "step") ||
                 (w[0] == "recv" && w.size() >= 4 && has(1) && kind(1) != "async") ||
                 (w[0] == "destroy" && has(1));
      if(!can) continue;
      har::out(line);
      try {
        if(w[0] == "fam") sc.v6 = (w[1] == "6");
        else if(w[0] == "sock") sc.Open(std::stol(w[1]), w);
        else if(w[0] == "sendto") sc.SendTo(w);
        else if(w[0] == "asend") { sc.ASend(w); sc.State(); }
        else if(w[0] == "step") { sc.Step(w); sc.State(); }
        else if(w[0] == "recv") sc.Recv(w);
        else if(w[0] == "destroy") {
          long i = std::stol(w[1]);
          sc.socks.erase(i);
          sc.State();
        }
      } catch(std::exception const &e) {
        har::obs(std::string("throw harness ") + e.what());
      }
      // the source of every datagram reported so far must still be what it was (an Address handed out is a value)
      if(auto changed = sc.KeptSourcesChanged(); !changed.empty()) {
        har::obs("crash " + changed);
        break;
      }
    }
    sc.keptSources.clear();
    sc.socks.clear();
    sc.futs.clear();
    sc.driver.reset();
    sc.pool.reset();
  });
}

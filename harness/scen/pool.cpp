// C10 scenario interpreter, part 1: the public BufferPool driven directly.
#include "h/common.h"
#include "sockpuppet/socket_buffered.h"

#include <map>
#include <memory>
#include <thread>

using namespace sockpuppet;

int main()
{
  return har::run_cases([](std::string const &, std::vector<std::string> const &ops) {
    std::unique_ptr<BufferPool> pool;
    std::map<void const *, size_t> ordOf; // address -> first-seen ordinal
    std::map<size_t, BufferPool::BufferPtr> held;

    for(auto const &line : ops) {
      auto w = har::words(line);
      if(w.empty()) continue;
      if(w[0] == "pool" && w.size() == 3) {
        har::out(line);
        held.clear();
        pool = std::make_unique<BufferPool>(std::stoull(w[1]), std::stoull(w[2]));
        ordOf.clear();
      } else if(w[0] == "get") {
        har::out("get");
        try {
          auto b = pool->Get();
          auto it = ordOf.find(b.get());
          size_t ord = (it == ordOf.end() ? ordOf.emplace(b.get(), ordOf.size()).first->second : it->second);
          har::obs("ok " + std::to_string(ord) + " " + std::to_string(b->size()) + " " + std::to_string(b->capacity()));
          held.erase(ord); // a pool handing out an outstanding buffer twice must not double-free in the harness
          held.emplace(ord, std::move(b));
        } catch(std::runtime_error const &) {
          har::obs("throw");
        }
      } else if((w[0] == "relk" || w[0] == "reltk" || w[0] == "fillk") && w.size() >= 2) {
        // address a held buffer by its position in acquisition order (generator needs no simulation)
        if(held.empty()) continue;
        auto it = held.begin();
        std::advance(it, std::stoull(w[1]) % held.size());
        // held is keyed by ordinal; good enough as a deterministic choice
        auto ord = it->first;
        if(w[0] == "fillk") {
          auto n = std::stoull(w[2]);
          har::out("fill " + std::to_string(ord) + " " + std::to_string(n));
          it->second->assign(n, 'x');
        } else {
          har::out("rel " + std::to_string(ord));
          if(w[0] == "reltk") {
            auto b = std::move(it->second);
            held.erase(it);
            std::thread([b = std::move(b)]() mutable { b.reset(); }).join();
          } else {
            held.erase(it);
          }
        }
      } else if(w[0] == "fill" && w.size() == 3) {
        har::out(line);
        auto it = held.find(std::stoull(w[1]));
        if(it != held.end()) it->second->assign(std::stoull(w[2]), 'x');
      } else if((w[0] == "rel" || w[0] == "relt") && w.size() == 2) {
        har::out("rel " + w[1]);
        auto it = held.find(std::stoull(w[1]));
        if(it != held.end()) {
          if(w[0] == "relt") { // release on another thread
            auto b = std::move(it->second);
            held.erase(it);
            std::thread([b = std::move(b)]() mutable { b.reset(); }).join();
          } else {
            held.erase(it);
          }
        }
      }
    }
    held.clear();
    pool.reset();
  });
}

// C02, scheduled: 1-3 producer threads call SocketTcpAsync::Send while the driver thread runs, ALL
// of them under the deterministic cooperative scheduler (harness/sched): every lock / unlock of
// sendQMtx, stepMtx, pauseMtx and the pool mutex, every poll and pipe operation is a schedule point,
// so "the moment the queue runs empty and is refilled" is explored systematically instead of being
// hoped for.  Partial kernel writes come from a scripted `send` defined here.  The observations have
// the format of the real-thread `mt` mode of async_send.cpp, so the same property predicate applies.
#include "h/common.h"
#include "sched/sched.h"

#include "driver_impl.h"
#include "socket_async_impl.h"
#include "sockpuppet/socket_async.h"

#include <arpa/inet.h>
#include <atomic>
#include <deque>
#include <dlfcn.h>
#include <future>
#include <netinet/in.h>
#include <netinet/tcp.h>
#include <poll.h>
#include <sys/socket.h>
#include <unistd.h>

using namespace sockpuppet;

namespace {

int g_cliFd = -1;
std::deque<long> g_shorts; // caps for the next send() calls on the socket under test

unsigned char Pat(long id, size_t j)
{
  return static_cast<unsigned char>((id * 37 + static_cast<long>(j) * 11 + static_cast<long>(j / 251) * 3 + 1) & 0xff);
}

char Letter(std::shared_future<void> const &f)
{
  if(f.wait_for(std::chrono::seconds(0)) != std::future_status::ready) return 'p';
  try { f.get(); return 'v'; }
  catch(std::future_error const &e) { return e.code() == std::future_errc::broken_promise ? 'b' : 'x'; }
  catch(std::exception const &) { return 'e'; }
}

} // unnamed namespace

extern "C" ssize_t send(int fd, void const *buf, size_t len, int flags)
{
  static auto fn = reinterpret_cast<ssize_t (*)(int, void const *, size_t, int)>(dlsym(RTLD_NEXT, "send"));
  if(fd == g_cliFd && !g_shorts.empty()) {
    auto cap = static_cast<size_t>(g_shorts.front());
    g_shorts.pop_front();
    if(cap < len) len = cap;
  }
  return fn(fd, buf, len, flags);
}

int main()
{
  return har::run_cases([](std::string const &caseId, std::vector<std::string> const &ops) {
    for(auto const &line : ops) {
      auto w = har::words(line);
      // mt <threads> <per> <maxSize> <shorts> <seed> [choice prefix...]
      if(w.size() < 6 || w[0] != "mt") continue;
      har::out(line);
      size_t threads = std::stoul(w[1]), per = std::stoul(w[2]), maxSize = std::stoul(w[3]), shorts = std::stoul(w[4]);
      uint64_t seed = std::stoull(w[5]);
      std::vector<int> prefix;
      for(size_t i = 6; i < w.size(); ++i) prefix.push_back(std::stoi(w[i]));

      // raw peer
      int lfd = ::socket(AF_INET, SOCK_STREAM, 0);
      int one = 1;
      ::setsockopt(lfd, SOL_SOCKET, SO_REUSEADDR, &one, sizeof(one));
      sockaddr_in a{};
      a.sin_family = AF_INET;
      a.sin_addr.s_addr = htonl(INADDR_LOOPBACK);
      ::bind(lfd, reinterpret_cast<sockaddr *>(&a), sizeof(a));
      ::listen(lfd, 4);
      socklen_t l = sizeof(a);
      ::getsockname(lfd, reinterpret_cast<sockaddr *>(&a), &l);

      sched::reset(seed, prefix);
      auto pool = std::make_unique<BufferPool>(threads * per, 64);
      auto driver = std::make_unique<Driver>();
      auto sock = std::make_unique<SocketTcpAsync>(
          SocketTcpBuffered(SocketTcp(Address("127.0.0.1", std::to_string(ntohs(a.sin_port)))), 1U, 64U), *driver,
          [](BufferPtr) {}, [](Address, char const *) {});
      int pfd = ::accept(lfd, nullptr, nullptr);
      g_cliFd = sock->impl->buff->sock->fd;
      ::setsockopt(g_cliFd, IPPROTO_TCP, TCP_NODELAY, &one, sizeof(one));
      g_shorts.clear();
      for(size_t i = 0; i < shorts; ++i) g_shorts.push_back(1 + static_cast<long>((seed + i * 7) % 9));
      auto &impl = *driver->impl;
      sched::name_mutex(impl.stepMtx.native_handle(), "step");
      sched::name_mutex(impl.pauseMtx.native_handle(), "pause");
      sched::name_mutex(sock->impl->sendQMtx.native_handle(), "sendq");
      sched::name_fd(impl.pipeTo.fd, "pipe");
      sched::name_fd(impl.pipeFrom.fd, "pipefrom");
      sched::name_fd(g_cliFd, "cli");

      std::vector<std::vector<std::shared_future<void>>> futs(threads);
      std::vector<std::vector<size_t>> sizes(threads);
      size_t total = 0;
      for(size_t t = 0; t < threads; ++t)
        for(size_t s = 0; s < per; ++s) {
          size_t n = (seed * 31 + t * 17 + s * 13) % (maxSize + 1);
          sizes[t].push_back(n);
          total += 4 + n;
        }
      std::atomic<size_t> producersDone{0};
      auto *drv = driver.get();
      auto *sk = sock.get();
      auto *pl = pool.get();
      sched::spawn("drv", [drv]() { drv->Run(); });
      for(size_t t = 0; t < threads; ++t) {
        sched::spawn("p" + std::to_string(t), [&, t, sk, pl]() {
          for(size_t s = 0; s < per; ++s) {
            auto b = pl->Get();
            size_t n = sizes[t][s];
            b->resize(4 + n);
            (*b)[0] = static_cast<char>(0xF0 | t);
            (*b)[1] = static_cast<char>(s);
            (*b)[2] = static_cast<char>(n & 0xff);
            (*b)[3] = static_cast<char>(n >> 8);
            for(size_t j = 0; j < n; ++j) (*b)[4 + j] = static_cast<char>(Pat(static_cast<long>(t * 64 + s), j));
            futs[t].push_back(sk->Send(std::move(b)).share());
          }
          ++producersDone;
        });
      }
      sched::spawn("stopper", [&, drv]() {
        sched::wait_until("all futures ready", [&]() {
          if(producersDone.load() < threads) return false;
          for(auto &v : futs) for(auto &f : v) if(f.wait_for(std::chrono::seconds(0)) != std::future_status::ready) return false;
          return true;
        });
        drv->Stop();
      });
      auto outcome = sched::run();
      // what the peer obtained
      std::string stream;
      {
        std::string buf(65536, '\0');
        for(;;) {
          pollfd p{pfd, POLLIN, 0};
          if(::poll(&p, 1, stream.size() < total && outcome == sched::Outcome::Done ? 2000 : 50) <= 0) break;
          auto r = ::read(pfd, buf.data(), buf.size());
          if(r <= 0) break;
          stream.append(buf.data(), static_cast<size_t>(r));
          if(stream.size() >= total) break;
        }
      }
      std::string letters;
      for(size_t t = 0; t < threads; ++t) {
        for(auto &f : futs[t]) letters.push_back(Letter(f));
        letters.push_back('/');
      }
      std::string ch;
      for(int c : sched::choices()) ch += std::to_string(c) + " ";
      har::obs("schedule " + ch);
      if(outcome != sched::Outcome::Done) {
        har::obs("mt stream " + har::hex(stream));
        har::obs("mt futs " + letters);
        har::obs(std::string("hang ") + (outcome == sched::Outcome::Deadlock ? "deadlock: " : "stuck: ") + sched::describe_blocked() +
                 "(a queued buffer is never transmitted / a future never resolves although the peer reads)");
        har::out("end " + caseId);
        std::fflush(stdout);
        _exit(0);
      }
      sched::reset(1, {});
      size_t back = 0;
      {
        std::vector<BufferPtr> got;
        for(;;) {
          try { got.push_back(pl->Get()); } catch(std::runtime_error const &) { break; }
          if(got.size() > threads * per) break;
        }
        back = got.size();
      }
      har::obs("mt stream " + har::hex(stream));
      har::obs("mt futs " + letters);
      har::obs("mt back " + std::to_string(back) + " " + std::to_string(threads * per));
      futs.clear();
      sock.reset();
      driver.reset();
      pool.reset();
      linger lg{1, 0};
      ::setsockopt(pfd, SOL_SOCKET, SO_LINGER, &lg, sizeof(lg));
      ::close(pfd);
      ::close(lfd);
      g_cliFd = -1;
    }
  });
}

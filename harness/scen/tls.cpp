// C18 scenario interpreter: TLS client/server pairings of {basic, buffered, async} sockets.
//
// Everything the TLS glue (src/socket_tls_impl.cpp) does is observed at its two boundaries:
//   * below: poll/send/recv on the TLS descriptors (vos shim; raw bytes captured),
//   * beside: the OpenSSL entry points SSL_read / SSL_write_ex and the BIO callbacks
//     (link-time interposition from this executable: the library's calls resolve here,
//     we log and forward to the real libssl via dlsym(RTLD_NEXT)).
// The transcript is a flat stream of tagged events; the Lean driver (Drive/C18.lean) re-runs the
// glue model per endpoint on the observed engine / OS answers and evaluates Spec.C18.
#include "h/common.h"
#include "vos/vos.h"

#include "driver_impl.h"
#include "socket_async_impl.h"
#include "socket_buffered_impl.h"
#include "socket_tls_impl.h"
#include "sockpuppet/socket_async.h"

#include <openssl/err.h>
#include <openssl/ssl.h>

#include <arpa/inet.h>
#include <atomic>
#include <dlfcn.h>
#include <map>
#include <mutex>
#include <netinet/in.h>
#include <netinet/tcp.h>
#include <optional>
#include <random>
#include <sys/socket.h>
#include <thread>
#include <unistd.h>

using namespace sockpuppet;

// --------------------------------------------------------------------------------------------
// interposed OpenSSL entry points
// --------------------------------------------------------------------------------------------
namespace reg {
std::mutex mtx;
std::map<SSL const *, std::string> ssls;
std::map<BIO const *, std::pair<std::string, char>> bios;
std::atomic<bool> on{false};

std::string sslName(SSL const *s)
{
  std::lock_guard<std::mutex> l(mtx);
  auto it = ssls.find(s);
  return it == ssls.end() ? std::string() : it->second;
}
char const *errName(int e)
{
  switch(e) {
  case SSL_ERROR_NONE: return "none";
  case SSL_ERROR_WANT_READ: return "want_read";
  case SSL_ERROR_WANT_WRITE: return "want_write";
  case SSL_ERROR_ZERO_RETURN: return "zero_return";
  case SSL_ERROR_SYSCALL: return "syscall";
  case SSL_ERROR_SSL: return "ssl";
  default: return "other";
  }
}
} // namespace reg

extern "C" {

int SSL_read(SSL *ssl, void *buf, int num)
{
  static auto fn = reinterpret_cast<int (*)(SSL *, void *, int)>(dlsym(RTLD_NEXT, "SSL_read"));
  auto who = reg::on ? reg::sslName(ssl) : std::string();
  if(who.empty()) return fn(ssl, buf, num);
  vos::log_note("ssl " + who + " read " + std::to_string(num));
  int r;
  try {
    r = fn(ssl, buf, num);
  } catch(...) {
    vos::log_note("sslexn " + who);
    throw;
  }
  int err = SSL_get_error(ssl, r);
  vos::log_note("sslret " + who + " " + (r > 0 ? "done " + std::to_string(r) : std::string(reg::errName(err))) +
                " init=" + (SSL_is_init_finished(ssl) ? "1" : "0"));
  return r;
}

int SSL_write_ex(SSL *ssl, void const *buf, size_t num, size_t *written)
{
  static auto fn = reinterpret_cast<int (*)(SSL *, void const *, size_t, size_t *)>(dlsym(RTLD_NEXT, "SSL_write_ex"));
  auto who = reg::on ? reg::sslName(ssl) : std::string();
  if(who.empty()) return fn(ssl, buf, num, written);
  vos::log_note("ssl " + who + " write " + std::to_string(num));
  int r;
  try {
    r = fn(ssl, buf, num, written);
  } catch(...) {
    vos::log_note("sslexn " + who);
    throw;
  }
  int err = SSL_get_error(ssl, r);
  vos::log_note("sslret " + who + " " + (r > 0 ? "done " + std::to_string(*written) : std::string(reg::errName(err))) +
                " init=" + (SSL_is_init_finished(ssl) ? "1" : "0"));
  return r;
}

// the library's BIO callbacks (bio::Read / bio::Write) start with BIO_get_data(b)
void *BIO_get_data(BIO *b)
{
  static auto fn = reinterpret_cast<void *(*)(BIO *)>(dlsym(RTLD_NEXT, "BIO_get_data"));
  if(reg::on) {
    std::string who;
    char dir = 0;
    {
      std::lock_guard<std::mutex> l(reg::mtx);
      auto it = reg::bios.find(b);
      if(it != reg::bios.end()) { who = it->second.first; dir = it->second.second; }
    }
    if(dir) vos::log_note(std::string("bio ") + who + " " + dir);
  }
  return fn(b);
}

} // extern "C"

// --------------------------------------------------------------------------------------------
namespace {

std::string certDir()
{
  if(auto e = std::getenv("VERIF_CERTS")) return e;
  return "harness/certs";
}

BufferPtr ToBufferPtr(std::string const &s)
{
  static BufferPool pool;
  auto p = pool.Get();
  p->assign(s);
  return p;
}

struct Ep
{
  std::string name;
  std::string kind;
  std::optional<SocketTcp> basic;
  std::optional<SocketTcpBuffered> buffered;
  std::optional<SocketTcpAsync> async;
  std::shared_ptr<Driver> driver; // async only
  std::string dname;
  int fd = -1;
  SSL *ssl = nullptr;
  bool tls = true;
  std::string payload;
  size_t sentOff = 0;
  std::string got;
  size_t expect = 0;
  size_t rsz = 4096;
  bool enqueued = false;
  std::vector<std::future<void>> futs;
  std::vector<bool> futDone;
  bool failed = false;
  int disc = 0;
  std::mutex m;

  bool SendDone() const
  {
    if(kind == "async") {
      if(!enqueued) return payload.empty();
      for(auto d : futDone) if(!d) return false;
      return true;
    }
    return sentOff >= payload.size();
  }
  bool RecvDone() const { return got.size() >= expect; }
};

struct Scen
{
  std::unique_ptr<Ep> c, s;
  std::optional<Acceptor> acc;
  std::optional<AcceptorAsync> accAsync;
  std::shared_ptr<Driver> dc, ds;
  int rawFd = -1;      // plain peer (harness-owned raw socket)
  std::string rawGot;  // what the plain peer read
  std::string rawSent;
  std::vector<std::thread> threads;
  std::string marker;
  bool setupOk = false;

  Ep *ep(std::string const &n) { return n == "c" ? c.get() : s.get(); }
};

// ---- event stream ---------------------------------------------------------------------------
// translate the vos log (OS calls + our notes) into tagged observation lines, in order
void Drain()
{
  for(auto const &l : vos::take_log()) {
    auto w = har::words(l);
    if(w.empty()) continue;
    if(w[0] == "poll" && w.size() >= 2 && w[1][0] == '[') {
      // poll [pipe:1,c:5] timeout=0 at=... how -> r rev=0,4
      auto lb = l.find('['), rb = l.find(']');
      auto who = l.substr(lb + 1, rb - lb - 1);
      auto tp = l.find("timeout=");
      auto te = l.find(' ', tp);
      auto timeout = l.substr(tp + 8, te - tp - 8);
      auto ar = l.find("-> ");
      auto rest = har::words(l.substr(ar + 3));
      std::string res = rest.empty() ? "?" : rest[0];
      std::string rev = "0";
      auto rp = l.find("rev=");
      if(rp != std::string::npos) rev = l.substr(rp + 4);
      // split who and rev
      std::vector<std::string> fds, revs;
      {
        std::string cur;
        for(char ch : who) { if(ch == ',') { fds.push_back(cur); cur.clear(); } else cur.push_back(ch); }
        fds.push_back(cur);
        cur.clear();
        for(char ch : rev) { if(ch == ',') { revs.push_back(cur); cur.clear(); } else cur.push_back(ch); }
        revs.push_back(cur);
      }
      bool interesting = false;
      for(auto const &f : fds) if(f.rfind("c:", 0) == 0 || f.rfind("s:", 0) == 0) interesting = true;
      if(!interesting) continue; // the driver's Bump/Unbump on the pipe, the acceptor's wait
      if(fds.size() == 1) {
        // a wait of the socket layer: os <ep> poll <in|out> <timeout> <ready|timeout|err>
        auto col = fds[0].find(':');
        auto epn = fds[0].substr(0, col);
        int ev = std::stoi(fds[0].substr(col + 1));
        std::string r = (res == "0") ? "timeout" : (res[0] == '-' ? "err" : "ready");
        har::obs("os " + epn + " poll " + (ev == POLLIN ? "in" : (ev == POLLOUT ? "out" : std::to_string(ev))) + " " + timeout + " " + r);
      } else {
        // the driver's poll: dpoll <timeout> <res> label:events:revents ...
        std::string line = "dpoll " + timeout + " " + res;
        for(size_t i = 0; i < fds.size(); ++i) line += " " + fds[i] + ":" + (i < revs.size() ? revs[i] : "0");
        har::obs(line);
      }
    } else if(w[0] == "send" && w.size() >= 2 && (w[1] == "c" || w[1] == "s")) {
      // send c len=517 nosignal=1 real -> 517 | -1 errno=32
      auto lp = l.find("len=");
      auto le = l.find(' ', lp);
      auto ar = l.find("-> ");
      auto rest = har::words(l.substr(ar + 3));
      std::string ns = l.find("nosignal=1") != std::string::npos ? "1" : "0";
      std::string res = rest[0] == "-1" ? "fail " + rest[1].substr(6) : rest[0];
      har::obs("os " + w[1] + " send " + l.substr(lp + 4, le - lp - 4) + " ns=" + ns + " " + res);
    } else if(w[0] == "recv" && w.size() >= 2 && (w[1] == "c" || w[1] == "s")) {
      auto lp = l.find("len=");
      auto le = l.find(' ', lp);
      auto ar = l.find("-> ");
      auto rest = har::words(l.substr(ar + 3));
      std::string res = rest[0] == "-1" ? "fail " + rest[1].substr(6) : rest[0];
      har::obs("os " + w[1] + " recv " + l.substr(lp + 4, le - lp - 4) + " " + res);
    } else if(w[0] == "ssl" || w[0] == "sslret" || w[0] == "sslexn" || w[0] == "bio" || w[0] == "api" || w[0] == "ret" ||
              w[0] == "rx" || w[0] == "disc" || w[0] == "fut" || w[0] == "enq" || w[0] == "hs" || w[0] == "dpend") {
      har::obs(l);
    }
  }
}

std::string excName(std::exception const &e)
{
  if(dynamic_cast<std::system_error const *>(&e)) return "system_error";
  if(dynamic_cast<std::logic_error const *>(&e)) return "logic_error";
  if(dynamic_cast<std::runtime_error const *>(&e)) return "runtime_error";
  return "exception";
}

// one synchronous API call; returns true if it made progress (bytes moved)
bool DoSend(Ep &e, long T)
{
  if(e.failed || e.SendDone()) return false;
  vos::log_note("api " + e.name + " send " + std::to_string(T) + " " + std::to_string(e.payload.size() - e.sentOff));
  try {
    size_t n;
    char const *p = e.payload.data() + e.sentOff;
    size_t len = e.payload.size() - e.sentOff;
    if(e.kind == "basic") n = e.basic->Send(p, len, Duration(T));
    else n = e.buffered->Send(p, len, Duration(T));
    e.sentOff += n;
    vos::log_note("ret " + e.name + " n " + std::to_string(n));
    return n > 0;
  } catch(std::exception const &ex) {
    e.failed = true;
    vos::log_note("ret " + e.name + " throw " + excName(ex) + " " + ex.what());
    return true;
  }
}

bool DoRecv(Ep &e, long T)
{
  if(e.failed || e.RecvDone()) return false;
  vos::log_note("api " + e.name + " recv " + std::to_string(T) + " " + std::to_string(e.rsz));
  try {
    if(e.kind == "basic") {
      std::string buf(e.rsz, '\0');
      auto r = e.basic->Receive(buf.data(), buf.size(), Duration(T));
      if(r) {
        e.got.append(buf.data(), *r);
        vos::log_note("ret " + e.name + " n " + std::to_string(*r));
        return true;
      }
    } else {
      auto r = e.buffered->Receive(Duration(T));
      if(r) {
        e.got.append(**r);
        vos::log_note("ret " + e.name + " n " + std::to_string((*r)->size()));
        return true;
      }
    }
    vos::log_note("ret " + e.name + " none");
    return false;
  } catch(std::exception const &ex) {
    e.failed = true;
    vos::log_note("ret " + e.name + " throw " + excName(ex) + " " + ex.what());
    return true;
  }
}

void DoEnq(Ep &e, size_t parts)
{
  if(e.enqueued || e.failed) return;
  e.enqueued = true;
  if(parts < 1) parts = 1;
  size_t n = e.payload.size();
  size_t off = 0;
  for(size_t i = 0; i < parts; ++i) {
    size_t len = (i + 1 == parts) ? n - off : n / parts;
    vos::log_note("enq " + e.name + " " + std::to_string(len));
    e.futs.push_back(e.async->Send(ToBufferPtr(e.payload.substr(off, len))));
    e.futDone.push_back(false);
    off += len;
  }
}

void PollFutures(Ep &e)
{
  for(size_t i = 0; i < e.futs.size(); ++i) {
    if(e.futDone[i]) continue;
    if(e.futs[i].wait_for(std::chrono::seconds(0)) == std::future_status::ready) {
      e.futDone[i] = true;
      try {
        e.futs[i].get();
        vos::log_note("fut " + e.name + " " + std::to_string(i) + " ok");
      } catch(std::exception const &ex) {
        e.failed = true;
        vos::log_note("fut " + e.name + " " + std::to_string(i) + " exn " + ex.what());
      }
    }
  }
}

bool DoStep(Scen &sc, Driver &d, std::string const &dname, long T)
{
  size_t before = (sc.c ? sc.c->got.size() : 0) + (sc.s ? sc.s->got.size() : 0);
  vos::log_note("api " + dname + " step " + std::to_string(T));
  // what DriverQuery will see: decrypted bytes an asynchronous TLS endpoint of this driver still holds inside OpenSSL
  for(auto *e : {sc.c.get(), sc.s.get()}) {
    if(e && e->kind == "async" && e->dname == dname && e->ssl) {
      vos::log_note("dpend " + e->name + " " + std::to_string(SSL_pending(e->ssl)));
    }
  }
  try {
    d.Step(Duration(T));
    vos::log_note("ret " + dname + " ok");
  } catch(std::exception const &ex) {
    vos::log_note("ret " + dname + " throw " + excName(ex) + " " + ex.what());
    for(auto *e : {sc.c.get(), sc.s.get()}) if(e && e->dname == dname) e->failed = true;
  }
  bool prog = false;
  for(auto *e : {sc.c.get(), sc.s.get()}) {
    if(e && e->kind == "async" && e->dname == dname) {
      size_t nd = 0;
      for(auto d2 : e->futDone) nd += d2;
      PollFutures(*e);
      size_t nd2 = 0;
      for(auto d2 : e->futDone) nd2 += d2;
      prog = prog || nd2 != nd;
    }
  }
  size_t after = (sc.c ? sc.c->got.size() : 0) + (sc.s ? sc.s->got.size() : 0);
  return prog || after != before;
}

void Register(Ep &e, SocketImpl *impl)
{
  e.fd = impl->fd;
  {
    // kernel timing only: without it Nagle + delayed ACK hold small records back for ~40 ms of REAL time,
    // which a virtual-time schedule would have to sit out
    int one = 1;
    (void)::setsockopt(e.fd, IPPROTO_TCP, TCP_NODELAY, &one, sizeof(one));
  }
  vos::name_fd(e.fd, e.name);
  vos::capture(e.fd, true);
  if(e.tls) {
    auto *t = static_cast<SocketTlsImpl *>(impl);
    e.ssl = t->ssl.get();
    std::lock_guard<std::mutex> l(reg::mtx);
    reg::ssls[e.ssl] = e.name;
    reg::bios[SSL_get_rbio(e.ssl)] = {e.name, 'r'};
    reg::bios[SSL_get_wbio(e.ssl)] = {e.name, 'w'};
  }
}

void Wrap(Scen &sc, Ep &e, SocketTcp &&sock, std::shared_ptr<Driver> drv, std::string const &dname)
{
  Register(e, sock.impl.get());
  if(e.kind == "basic") {
    e.basic.emplace(std::move(sock));
  } else if(e.kind == "buffered") {
    e.buffered.emplace(std::move(sock), 0U, e.rsz);
  } else {
    e.driver = drv;
    e.dname = dname;
    Ep *pe = &e;
    e.async.emplace(SocketTcpBuffered(std::move(sock), 0U, e.rsz), *drv,
                    [pe](BufferPtr b) {
                      vos::log_note("rx " + pe->name + " " + std::to_string(b->size()));
                      pe->got.append(*b);
                    },
                    [pe](Address, char const *why) {
                      vos::log_note(std::string("disc ") + pe->name + " " + why);
                      pe->disc++;
                      pe->failed = true;
                    });
  }
  (void)sc;
}

std::map<std::string, std::string> kv(std::vector<std::string> const &w, size_t from)
{
  std::map<std::string, std::string> m;
  for(size_t i = from; i < w.size(); ++i) {
    auto p = w[i].find('=');
    if(p != std::string::npos) m[w[i].substr(0, p)] = w[i].substr(p + 1);
  }
  return m;
}

std::string MakePayload(std::mt19937 &rng, size_t n, std::string const &marker)
{
  std::string p(n, '\0');
  for(auto &ch : p) ch = static_cast<char>(rng());
  // embed the marker (at the start and, when it fits, again at the end and across the 16 KiB record boundary)
  if(n >= marker.size()) {
    p.replace(0, marker.size(), marker);
    if(n >= 2 * marker.size()) p.replace(n - marker.size(), marker.size(), marker);
    if(n >= 16384 + marker.size()) p.replace(16384 - 16, marker.size(), marker);
  }
  return p;
}

void PushSeg(Ep &e, long seg, int)
{
  if(seg > 0) vos::cap("recv", e.fd, seg);
}

// program of a blocking (unlimited timeout) synchronous side
void BlockingProgram(Ep &e, std::string const &order)
{
  for(char ch : order) {
    if(ch == 's') {
      while(!e.failed && !e.SendDone()) DoSend(e, -1);
    } else {
      while(!e.failed && !e.RecvDone()) DoRecv(e, -1);
    }
  }
}

} // unnamed namespace

int main()
{
  return har::run_cases([](std::string const &, std::vector<std::string> const &ops) {
    vos::reset();
    vos::virtual_time(true);
    vos::hang_exits(true);
    vos::ledger_track(false);
    Scen sc;
    reg::on = false;
    {
      std::lock_guard<std::mutex> l(reg::mtx);
      reg::ssls.clear();
      reg::bios.clear();
    }
    std::string cert = certDir() + "/test_cert.pem", key = certDir() + "/test_key.pem";

    for(auto const &line : ops) {
      auto w = har::words(line);
      if(w.empty()) continue;
      har::out(line);
      try {
        if(w[0] == "setup") {
          // setup cli=K srv=K csz=N ssz=N segc=N segs=N seed=N shared=0|1 ver=12|13 plain=none|cli|srv
          auto m = kv(w, 1);
          std::mt19937 rng(static_cast<unsigned>(std::stoul(m["seed"])));
          sc.marker.resize(32);
          for(auto &ch : sc.marker) ch = static_cast<char>(rng());
          std::string plain = m.count("plain") ? m["plain"] : "none";
          sc.c = std::make_unique<Ep>();
          sc.s = std::make_unique<Ep>();
          sc.c->name = "c";
          sc.s->name = "s";
          sc.c->kind = m["cli"];
          sc.s->kind = m["srv"];
          sc.c->payload = MakePayload(rng, std::stoul(m["csz"]), sc.marker);
          sc.s->payload = MakePayload(rng, std::stoul(m["ssz"]), sc.marker);
          sc.c->expect = sc.s->payload.size();
          sc.s->expect = sc.c->payload.size();
          if(plain != "none") sc.c->expect = sc.s->expect = 1; // keep trying to receive from the non-TLS peer
          if(m.count("rsz")) sc.c->rsz = sc.s->rsz = std::stoul(m["rsz"]);
          bool shared = m["shared"] == "1";
          if(sc.c->kind == "async") sc.dc = std::make_shared<Driver>();
          if(sc.s->kind == "async") sc.ds = (shared && sc.dc) ? sc.dc : std::make_shared<Driver>();
          std::string dcn = "dc", dsn = (shared && sc.dc) ? "dc" : "ds";
          if(sc.dc) vos::name_fd(sc.dc->impl->pipeTo.fd, "pipe");
          if(sc.ds) vos::name_fd(sc.ds->impl->pipeTo.fd, "pipe");

          if(plain == "none") {
            std::optional<SocketTcp> srvSock;
            if(sc.s->kind == "async") {
              // (the loopback is shared with other programs: only OUR client's connection counts)
              std::optional<Address> want;
              sc.accAsync.emplace(Acceptor(Address("127.0.0.1:0"), cert.c_str(), key.c_str()), *sc.ds,
                                  [&srvSock, &want](SocketTcp t, Address from) { if(want && from == *want) srvSock.emplace(std::move(t)); });
              vos::name_fd(sc.accAsync->impl->buff->sock->fd, "acc");
              auto addr = sc.accAsync->LocalAddress();
              SocketTcp cli(addr, cert.c_str(), key.c_str());
              want = cli.LocalAddress();
              for(int i = 0; i < 50 && !srvSock; ++i) sc.ds->Step(Duration(0));
              if(!srvSock) throw std::runtime_error("async accept did not happen");
              Wrap(sc, *sc.c, std::move(cli), sc.dc, dcn);
              Wrap(sc, *sc.s, std::move(*srvSock), sc.ds, dsn);
            } else {
              sc.acc.emplace(Address("127.0.0.1:0"), cert.c_str(), key.c_str());
              (void)sc.acc->Listen(Duration(0));
              auto addr = sc.acc->LocalAddress();
              SocketTcp cli(addr, cert.c_str(), key.c_str());
              auto want = cli.LocalAddress();
              auto r = sc.acc->Listen(Duration(0));
              for(int i = 0; i < 50 && r && !(r->second == want); ++i) r = sc.acc->Listen(Duration(0)); // foreign connection
              if(!r || !(r->second == want)) throw std::runtime_error("accept did not happen");
              Wrap(sc, *sc.c, std::move(cli), sc.dc, dcn);
              Wrap(sc, *sc.s, std::move(r->first), sc.ds, dsn);
            }
            if(m.count("ver") && m["ver"] == "12") SSL_set_max_proto_version(sc.c->ssl, TLS1_2_VERSION);
          } else if(plain == "cli") {
            // the CLIENT is a plain TCP peer (raw socket owned by the harness), the server is TLS
            std::optional<SocketTcp> srvSock;
            std::optional<Address> rawWant;
            Address addr;
            if(sc.s->kind == "async") {
              sc.accAsync.emplace(Acceptor(Address("127.0.0.1:0"), cert.c_str(), key.c_str()), *sc.ds,
                                  [&srvSock, &rawWant](SocketTcp t, Address from) { if(rawWant && from == *rawWant) srvSock.emplace(std::move(t)); });
              addr = sc.accAsync->LocalAddress();
            } else {
              sc.acc.emplace(Address("127.0.0.1:0"), cert.c_str(), key.c_str());
              (void)sc.acc->Listen(Duration(0));
              addr = sc.acc->LocalAddress();
            }
            sc.rawFd = ::socket(AF_INET, SOCK_STREAM, 0);
            sockaddr_in sa{};
            sa.sin_family = AF_INET;
            sa.sin_port = htons(addr.Port());
            sa.sin_addr.s_addr = htonl(INADDR_LOOPBACK);
            if(::connect(sc.rawFd, reinterpret_cast<sockaddr *>(&sa), sizeof(sa))) throw std::runtime_error("raw connect failed");
            vos::name_fd(sc.rawFd, "raw");
            sockaddr_in me{};
            socklen_t ml = sizeof(me);
            ::getsockname(sc.rawFd, reinterpret_cast<sockaddr *>(&me), &ml);
            rawWant = Address("127.0.0.1:" + std::to_string(ntohs(me.sin_port)));
            if(sc.s->kind == "async") {
              for(int i = 0; i < 50 && !srvSock; ++i) sc.ds->Step(Duration(0));
              if(!srvSock) throw std::runtime_error("async accept did not happen");
            } else {
              auto r = sc.acc->Listen(Duration(0));
              for(int i = 0; i < 50 && r && !(r->second == *rawWant); ++i) r = sc.acc->Listen(Duration(0));
              if(!r || !(r->second == *rawWant)) throw std::runtime_error("accept did not happen");
              srvSock.emplace(std::move(r->first));
            }
            sc.c.reset();
            Wrap(sc, *sc.s, std::move(*srvSock), sc.ds, dsn);
          } else {
            // the SERVER is a plain TCP peer (raw listening socket owned by the harness), the client is TLS
            int lfd = ::socket(AF_INET, SOCK_STREAM, 0);
            sockaddr_in sa{};
            sa.sin_family = AF_INET;
            sa.sin_addr.s_addr = htonl(INADDR_LOOPBACK);
            if(::bind(lfd, reinterpret_cast<sockaddr *>(&sa), sizeof(sa)) || ::listen(lfd, 4)) throw std::runtime_error("raw listen failed");
            socklen_t sl = sizeof(sa);
            ::getsockname(lfd, reinterpret_cast<sockaddr *>(&sa), &sl);
            SocketTcp cli(Address("127.0.0.1:" + std::to_string(ntohs(sa.sin_port))), cert.c_str(), key.c_str());
            sc.rawFd = ::accept(lfd, nullptr, nullptr);
            ::close(lfd);
            if(sc.rawFd < 0) throw std::runtime_error("raw accept failed");
            vos::name_fd(sc.rawFd, "raw");
            sc.s.reset();
            Wrap(sc, *sc.c, std::move(cli), sc.dc, dcn);
          }
          for(auto *e : {sc.c.get(), sc.s.get()}) {
            if(!e) continue;
            // kernel / engine knobs (not library API): small socket buffers make congestion reachable with
            // small payloads, a small TLS record size makes many-record sends reachable with small payloads
            if(m.count("bufs")) {
              int b = std::stoi(m["bufs"]);
              (void)::setsockopt(e->fd, SOL_SOCKET, SO_SNDBUF, &b, sizeof(b));
              (void)::setsockopt(e->fd, SOL_SOCKET, SO_RCVBUF, &b, sizeof(b));
              // loopback's MSS (64 KiB) is larger than such a buffer, which makes the kernel's silly-window
              // avoidance stall the stream for hundreds of ms of REAL time; a small MSS avoids that
              int mss = 1000;
              (void)::setsockopt(e->fd, IPPROTO_TCP, TCP_MAXSEG, &mss, sizeof(mss));
            }
            if(m.count("frag") && e->ssl) SSL_set_max_send_fragment(e->ssl, std::stol(m["frag"]));
          }
          if(sc.c) PushSeg(*sc.c, m.count("segc") ? std::stol(m["segc"]) : 0, 100000);
          if(sc.s) PushSeg(*sc.s, m.count("segs") ? std::stol(m["segs"]) : 0, 100000);
          if(m.count("wsegc") && sc.c) vos::cap("send", sc.c->fd, std::stol(m["wsegc"]));
          if(m.count("wsegs") && sc.s) vos::cap("send", sc.s->fd, std::stol(m["wsegs"]));
          sc.setupOk = true;
          (void)vos::take_log();
          vos::log_enable(true);
          reg::on = true;
          har::obs("setup ok marker=" + har::hex(sc.marker) + " cpay=" + (sc.c ? har::hex(sc.c->payload) : "-") + " spay=" +
                   (sc.s ? har::hex(sc.s->payload) : "-"));
        } else if(!sc.setupOk) {
          continue;
        } else if(w[0] == "poison") {
          // F15: another TLS socket OF THIS THREAD whose handshake never finishes (a silent plain TCP peer) and that is
          // destroyed in that state (SSL_shutdown fails with "shutdown while in init": an entry in the thread's OpenSSL
          // error queue).  Nothing of it is reported: the endpoints under test must simply be unaffected.
          int l = -1, acc = -1;
          uint16_t port = 0;
          {
            vos::Bypass bypass;
            l = ::socket(AF_INET, SOCK_STREAM, 0);
            sockaddr_in a{};
            a.sin_family = AF_INET;
            a.sin_addr.s_addr = htonl(INADDR_LOOPBACK);
            ::bind(l, reinterpret_cast<sockaddr *>(&a), sizeof(a));
            ::listen(l, 1);
            socklen_t sl = sizeof(a);
            ::getsockname(l, reinterpret_cast<sockaddr *>(&a), &sl);
            port = ntohs(a.sin_port);
          }
          bool regWas = reg::on;
          reg::on = false;           // its engine calls are nobody's business
          vos::log_enable(false);
          std::string how = "destroyed-in-handshake";
          try {
            SocketTcp doomed(Address("127.0.0.1:" + std::to_string(port)), cert.c_str(), key.c_str());
            try { (void)doomed.Send("x", 1, Duration(0)); } catch(std::exception const &e) { how = std::string("send-threw ") + e.what(); }
            vos::hang_returns(true); // the destructor's SSL_shutdown waits (virtually) for a peer that says nothing
          } catch(std::exception const &e) { how = std::string("setup-threw ") + e.what(); }
          vos::hang_returns(false);
          vos::log_enable(true);
          reg::on = regWas;
          har::obs("poisoned " + how + " errq=" + std::to_string(ERR_peek_error() != 0));
          {
            vos::Bypass bypass;
            acc = ::accept4(l, nullptr, nullptr, SOCK_NONBLOCK);
            if(acc >= 0) ::close(acc);
            ::close(l);
          }
        } else if(w[0] == "bg" && w.size() >= 3) {
          // bg <side> <order>   : blocking program (unlimited timeouts) on its own thread
          Ep *e = sc.ep(w[1]);
          std::string order = w[2];
          if(e && e->kind != "async") sc.threads.emplace_back([e, order]() { BlockingProgram(*e, order); });
        } else if(w[0] == "loop" && w.size() >= 3) {
          // loop <maxIdleRounds> tok... ; tok = side:op[:arg]  (op = send|recv|step|enq)
          long maxIdle = std::stol(w[1]);
          long idle = 0;
          long rounds = 0;
          auto allDone = [&]() {
            bool d = true;
            for(auto *e : {sc.c.get(), sc.s.get()}) if(e) d = d && (e->failed || (e->SendDone() && e->RecvDone()));
            return d;
          };
          while(!allDone() && idle < maxIdle && rounds < 200000) {
            ++rounds;
            bool prog = false;
            for(size_t i = 2; i < w.size(); ++i) {
              std::vector<std::string> f;
              {
                std::string cur;
                for(char ch : w[i]) { if(ch == ':') { f.push_back(cur); cur.clear(); } else cur.push_back(ch); }
                f.push_back(cur);
              }
              Ep *e = sc.ep(f[0]);
              if(!e) continue;
              if(f[1] == "seq" && f.size() >= 4) {
                // sequential program: finish the first phase before starting the second (s = send all, r = receive all)
                long T = std::stol(f[3]);
                for(char ph : f[2]) {
                  if(ph == 's' && !e->failed && !e->SendDone()) { prog = DoSend(*e, T) || prog; break; }
                  if(ph == 'r' && !e->failed && !e->RecvDone()) { prog = DoRecv(*e, T) || prog; break; }
                }
                Drain();
                continue;
              }
              long arg = f.size() > 2 ? std::stol(f[2]) : 0;
              if(f[1] == "send") prog = DoSend(*e, arg) || prog;
              else if(f[1] == "recv") prog = DoRecv(*e, arg) || prog;
              else if(f[1] == "enq") { if(!e->enqueued) { DoEnq(*e, static_cast<size_t>(arg)); prog = true; } }
              else if(f[1] == "enqafter") {
                // enqueue once something was received or the peer has nothing to send first
                if(!e->enqueued && (e->RecvDone() || rounds > 3)) { DoEnq(*e, static_cast<size_t>(arg)); prog = true; }
              } else if(f[1] == "step") prog = DoStep(sc, *e->driver, e->dname, arg) || prog;
              Drain();
            }
            if(prog) idle = 0; else {
              ++idle;
              // give the kernel / the other side's thread real time before declaring the exchange stuck
              if(idle > 2 || !sc.threads.empty()) ::usleep(1000);
            }
          }
          har::obs(std::string("loopend ") + (allDone() ? "done" : "stuck") + " rounds=" + std::to_string(rounds > 0 ? 1 : 0));
        } else if(w[0] == "join") {
          for(auto &t : sc.threads) t.join();
          sc.threads.clear();
          Drain();
        } else if(w[0] == "raw" && w.size() >= 3 && w[1] == "send") {
          std::string bytes = har::unhex(w[2]);
          sc.rawSent += bytes;
          (void)::send(sc.rawFd, bytes.data(), bytes.size(), MSG_NOSIGNAL);
        } else if(w[0] == "raw" && w.size() >= 2 && w[1] == "read") {
          char buf[65536];
          for(;;) {
            auto r = ::recv(sc.rawFd, buf, sizeof(buf), MSG_DONTWAIT);
            if(r <= 0) break;
            sc.rawGot.append(buf, static_cast<size_t>(r));
          }
        } else if(w[0] == "final") {
          for(auto &t : sc.threads) t.join();
          sc.threads.clear();
          Drain();
          reg::on = false;
          vos::log_enable(false);
          for(auto *e : {sc.c.get(), sc.s.get()}) {
            if(!e) continue;
            har::obs("wire " + e->name + " " + har::hex(vos::take_capture(e->fd)));
            har::obs("got " + e->name + " " + har::hex(e->got));
            har::obs("state " + e->name + " sent=" + std::to_string(e->kind == "async" ? (e->SendDone() ? e->payload.size() : 0) : e->sentOff) +
                     " failed=" + (e->failed ? "1" : "0") + " disc=" + std::to_string(e->disc) +
                     " init=" + (e->ssl && SSL_is_init_finished(e->ssl) ? "1" : "0") +
                     " ver=" + (e->ssl ? SSL_get_version(e->ssl) : "-") +
                     " pending=" + std::to_string(e->ssl ? SSL_pending(e->ssl) : 0));
          }
          if(sc.rawFd >= 0) {
            har::obs("rawgot " + har::hex(sc.rawGot));
            har::obs("rawsent " + har::hex(sc.rawSent));
          }
        }
      } catch(std::exception const &e) {
        Drain();
        har::obs(std::string("harness-error ") + e.what());
      }
    }
    // teardown (close_notify alerts etc. are not part of the observed window)
    reg::on = false;
    vos::log_enable(false);
    for(auto &t : sc.threads) t.join();
    vos::clear_script();
    vos::hang_returns(true); // a destructor's SSL_shutdown must not be mistaken for a hang
    if(sc.rawFd >= 0) ::close(sc.rawFd);
    sc.c.reset();
    sc.s.reset();
    sc.accAsync.reset();
    sc.acc.reset();
    sc.dc.reset();
    sc.ds.reset();
  });
}

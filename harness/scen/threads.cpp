// C04 / C05 / C08 scenario interpreter: one driver thread and several user threads, every library
// thread under the deterministic scheduler (harness/sched).  The trace of lock / poll / pipe events
// plus API and handler markers is printed as observations for the Lean LTS validator.
#include "h/common.h"
#include "sched/sched.h"

#include "driver_impl.h" // internal headers as the repo's internals test does: mutex / pipe identities
#include "socket_async_impl.h"
#include "sockpuppet/socket_async.h"

#include <arpa/inet.h>
#include <atomic>
#include <netinet/in.h>
#include <sys/socket.h>
#include <future>
#include <memory>
#include <optional>
#include <unistd.h>

using namespace sockpuppet;

namespace {

struct User
{
  std::string name;
  std::vector<std::string> actions;
  std::optional<SocketUdpAsync> sock;
  std::optional<SocketTcpAsync> tsock;
  std::atomic<bool> disconnected{false};
  std::atomic<bool> discStarted{false};
  std::optional<Address> addr;
  std::optional<ToDo> todo;
  std::future<void> fut;
  std::atomic<bool> done{false};
  std::atomic<int> handled{0};
  std::atomic<int> taskRuns{0};
};

struct Scen
{
  std::unique_ptr<Driver> driver;
  BufferPool pool;
  std::vector<std::unique_ptr<User>> users;
  std::string drvMode = "run";
  int drvSteps = 0;
  long drvTimeout = -1;
  std::atomic<int> runReturned{0};
  int lsn = -1;       // raw listener the TCP scenarios connect to
  uint16_t lsnPort = 0;
  int sigStopAt = 0; // Stop() from a 'signal handler' in front of the driver thread's k-th scheduling point
};

void DoAction(Scen &sc, User &u, std::string const &a)
{
  auto w = har::words(a);
  // actions are ':'-separated tokens: name[:arg]
  auto colon = a.find(':');
  std::string name = a.substr(0, colon);
  long arg = colon == std::string::npos ? 0 : std::atol(a.c_str() + colon + 1);
  sched::mark("begin " + u.name + " " + name);
  if(name == "udp") {
    auto *up = &u;
    u.sock.emplace(SocketUdpBuffered(SocketUdp(Address("127.0.0.1:0")), 0, 64), *sc.driver,
      [up](BufferPtr, Address) {
        sched::mark("handler " + up->name + " enter");
        sched::yield("in-handler"); // let other threads run while the handler is in progress
        ++up->handled;
        sched::mark("handler " + up->name + " exit");
      });
    u.addr.emplace(u.sock->LocalAddress());
  } else if(name == "tcp") {
    auto *up = &u;
    u.tsock.emplace(SocketTcpBuffered(SocketTcp(Address("127.0.0.1:" + std::to_string(sc.lsnPort))), 0, 64), *sc.driver,
      [up](BufferPtr) {
        sched::mark("handler " + up->name + " enter");
        sched::yield("in-handler");
        ++up->handled;
        sched::mark("handler " + up->name + " exit");
      },
      [up](Address, char const *) {
        sched::mark("handler " + up->name + " enter");
        up->discStarted = true;
        sched::yield("in-handler"); // a user thread may try to destroy the socket right now
        sched::yield("in-handler");
        up->disconnected = true;
        sched::mark("handler " + up->name + " exit");
      });
  } else if(name == "pclose") {
    // the raw peer accepts the connection and closes it: the driver will run the disconnect handler
    int fd = ::accept(sc.lsn, nullptr, nullptr);
    if(fd >= 0) ::close(fd);
  } else if(name == "waitdiscstart") {
    auto *up = &u;
    sched::wait_until("disconnect handler running " + u.name, [up]() { return up->discStarted.load(); });
  } else if(name == "waitdisc") {
    auto *up = &u;
    sched::wait_until("disconnected " + u.name, [up]() { return up->disconnected.load(); });
  } else if(name == "close") {
    if(u.tsock) u.tsock.reset(); else u.sock.reset();
  } else if(name == "sendto" && u.sock) {
    auto buf = sc.pool.Get();
    buf->assign("x");
    u.fut = u.sock->SendTo(std::move(buf), *u.addr);
  } else if(name == "waitfut" && u.fut.valid()) {
    auto *f = &u.fut;
    sched::wait_until("future " + u.name, [f]() { return f->wait_for(std::chrono::seconds(0)) == std::future_status::ready; });
  } else if(name == "waithandled" && u.sock) {
    auto *up = &u;
    sched::wait_until("handled " + u.name, [up]() { return up->handled.load() > 0; });
  } else if(name == "todo" || name == "todostop") {
    auto *up = &u;
    auto *scp = &sc;
    bool stop = (name == "todostop");
    u.todo.emplace(*sc.driver, [up, scp, stop]() {
      sched::mark("task " + up->name + " enter");
      sched::yield("in-task"); // let other threads run while the task is in progress
      ++up->taskRuns;
      if(stop) {
        sched::mark("begin " + up->name + " stop-in-task");
        scp->driver->Stop();
        sched::mark("end " + up->name + " stop-in-task");
      }
      sched::mark("task " + up->name + " exit");
    }, Duration(arg));
  } else if(name == "cancel" && u.todo) {
    u.todo->Cancel();
  } else if(name == "shift" && u.todo) {
    u.todo->Shift(Duration(arg));
  } else if(name == "waittask") {
    auto *up = &u;
    sched::wait_until("task " + u.name, [up]() { return up->taskRuns.load() > 0; });
  } else if(name == "yield") {
    sched::yield("user");
  } else if(name == "stop") {
    sc.driver->Stop();
  } else if(name == "waitothers") {
    auto *scp = &sc;
    auto *up = &u;
    sched::wait_until("others", [scp, up]() {
      for(auto &o : scp->users) if(o.get() != up && !o->done) return false;
      return true;
    });
  } else if(name == "waitrun") {
    auto *scp = &sc;
    long k = arg > 0 ? arg : 1;
    sched::wait_until("run returned", [scp, k]() { return scp->runReturned.load() >= k; });
  }
  sched::mark("end " + u.name + " " + name);
}

} // unnamed namespace

int main()
{
  return har::run_cases([](std::string const &caseId, std::vector<std::string> const &ops) {
    Scen sc;
    uint64_t seed = 1;
    std::vector<int> prefix;
    for(auto const &line : ops) {
      auto w = har::words(line);
      if(w.empty()) continue;
      har::out(line);
      if(w[0] == "sched") {
        seed = std::stoull(w[1]);
        for(size_t i = 2; i < w.size(); ++i) prefix.push_back(std::stoi(w[i]));
      } else if(w[0] == "drv") {
        sc.drvMode = w[1];
        if(w[1] == "steps") { sc.drvSteps = std::stoi(w[2]); sc.drvTimeout = std::stol(w[3]); }
        if(w[1] == "runs") { sc.drvSteps = std::stoi(w[2]); }
        if(w[1] == "stepsrun") { sc.drvSteps = std::stoi(w[2]); sc.drvTimeout = std::stol(w[3]); }
      } else if(w[0] == "sigstop") {
        sc.sigStopAt = std::stoi(w[1]);
      } else if(w[0] == "usr") {
        auto u = std::make_unique<User>();
        u->name = w[1];
        u->actions.assign(w.begin() + 2, w.end());
        sc.users.push_back(std::move(u));
      } else if(w[0] == "go") {
        sched::reset(seed, prefix);
        {
          sc.lsn = ::socket(AF_INET, SOCK_STREAM | SOCK_NONBLOCK, 0);
          sockaddr_in a{};
          a.sin_family = AF_INET;
          a.sin_addr.s_addr = htonl(INADDR_LOOPBACK);
          ::bind(sc.lsn, reinterpret_cast<sockaddr *>(&a), sizeof(a));
          ::listen(sc.lsn, 16);
          socklen_t len = sizeof(a);
          ::getsockname(sc.lsn, reinterpret_cast<sockaddr *>(&a), &len);
          sc.lsnPort = ntohs(a.sin_port);
        }
        sc.driver = std::make_unique<Driver>();
        auto &impl = *sc.driver->impl;
        sched::name_mutex(impl.stepMtx.native_handle(), "step");
        sched::name_mutex(impl.pauseMtx.native_handle(), "pause");
        sched::name_fd(impl.pipeTo.fd, "pipe");
        sched::name_fd(impl.pipeFrom.fd, "pipefrom");
        auto *scp = &sc;
        sched::spawn("drv", [scp]() {
          if(scp->drvMode == "stepsrun") {
            for(int i = 0; i < scp->drvSteps; ++i) {
              sched::mark("step-enter");
              scp->driver->Step(Duration(scp->drvTimeout));
              sched::mark("step-exit");
            }
            sched::mark("run-enter");
            scp->driver->Run();
            sched::mark("run-exit");
            ++scp->runReturned;
          } else if(scp->drvMode == "run" || scp->drvMode == "runs") {
            int n = scp->drvMode == "runs" ? scp->drvSteps : 1;
            for(int i = 0; i < n; ++i) {
              sched::mark("run-enter");
              scp->driver->Run();
              sched::mark("run-exit");
              ++scp->runReturned;
            }
          } else {
            for(int i = 0; i < scp->drvSteps; ++i) {
              sched::mark("step-enter");
              scp->driver->Step(Duration(scp->drvTimeout));
              sched::mark("step-exit");
            }
          }
        });
        if(sc.sigStopAt > 0) {
          sched::inject_at(0, sc.sigStopAt, [scp]() {
            // what the bundled examples do on Ctrl-C: Stop() from a signal handler, here on the driver thread
            sched::mark("begin drv stop-signal");
            scp->driver->Stop();
            sched::mark("end drv stop-signal");
          });
        }
        for(auto &up : sc.users) {
          auto *u = up.get();
          sched::spawn(u->name, [scp, u]() {
            for(auto const &a : u->actions) DoAction(*scp, *u, a);
            u->done = true;
          });
        }
        auto outcome = sched::run();
        for(auto const &l : sched::take_trace()) har::obs("ev " + l);
        std::string ch;
        for(int c : sched::choices()) ch += std::to_string(c) + " ";
        har::obs("schedule " + ch);
        if(outcome == sched::Outcome::Done) {
          har::obs("outcome done");
        } else {
          har::obs(std::string("outcome ") + (outcome == sched::Outcome::Deadlock ? "deadlock " : "stuck ") + sched::describe_blocked());
          har::out("end " + caseId);
          std::fflush(stdout);
          _exit(0); // parked threads cannot be joined
        }
        // orderly teardown (scheduler inactive from here: plain execution)
        sched::reset(1, {});
        for(auto &up : sc.users) { up->todo.reset(); up->sock.reset(); up->tsock.reset(); }
        ::close(sc.lsn);
        sc.driver.reset();
      }
    }
  });
}

// C17 scenario interpreter: histories of create / send / step / peer action / destroy / cancel / shift
// operations over up to two drivers, async sockets of the three classes (TCP client with a raw peer, UDP,
// acceptor), one send pool and ToDos, on the real public API.  One case = one history, run in a forked
// child: a sanitizer report, an assertion or a signal is the observation "crash".
//
//   driver d | ddriver d | step d
//   sock i tcp|udp|acc d <onDisc> <holdRx> <selfDestroyInRecv>     (flags 0/1)
//   send i | release i | dsock i
//   echo i          (the most recently received buffer the user holds of socket i - a buffer of the socket's OWN receive
//                    pool - is passed to Send/SendTo of socket i itself, the echo idiom of the repo's performance test;
//                    it then sits in the send queue and must find its pool alive when the socket is destroyed)
//   psend i | pclose i | preset i | pconn i                        (raw peer)
//   sendfail i                                                     (the next send() the library issues on tcp socket i fails)
//   todo t d <scheduled> | cancel t | shift t | droptodo t
//   dpool
// Observations per op: handler invocations (recv/recvfrom/conn/disc/todo) and futures that became ready
// (fut <id> value|exn|broken), in order.
#include "h/common.h"

#include "socket_async_impl.h" // internal header (as the repo's internals test does): descriptor for readiness waits
#include "socket_impl.h"
#include "sockpuppet/socket_async.h"

#include <arpa/inet.h>
#include <cerrno>
#include <dlfcn.h>
#include <map>
#include <netinet/in.h>
#include <optional>
#include <poll.h>
#include <sys/ioctl.h>
#include <sys/socket.h>
#include <sys/wait.h>
#include <unistd.h>

using namespace sockpuppet;

// descriptor -> errno the next send() on it fails with (environment fault: a driver-side TCP send that fails,
// e.g. ECONNRESET, without the receive side having noticed anything yet)
static std::map<int, int> g_failSend;

extern "C" ssize_t send(int fd, void const *buf, size_t len, int flags)
{
  static auto real = reinterpret_cast<ssize_t (*)(int, void const *, size_t, int)>(dlsym(RTLD_NEXT, "send"));
  auto it = g_failSend.find(fd);
  if(it != g_failSend.end()) {
    int e = it->second;
    g_failSend.erase(it);
    errno = e;
    return -1;
  }
  return real(fd, buf, len, flags);
}

namespace {

uint16_t bindAny(int fd)
{
  sockaddr_in a{};
  a.sin_family = AF_INET;
  a.sin_addr.s_addr = htonl(INADDR_LOOPBACK);
  ::bind(fd, reinterpret_cast<sockaddr *>(&a), sizeof(a));
  socklen_t l = sizeof(a);
  ::getsockname(fd, reinterpret_cast<sockaddr *>(&a), &l);
  return ntohs(a.sin_port);
}

sockaddr_in loop(uint16_t port)
{
  sockaddr_in a{};
  a.sin_family = AF_INET;
  a.sin_addr.s_addr = htonl(INADDR_LOOPBACK);
  a.sin_port = htons(port);
  return a;
}

// raw peers never leave TIME_WAIT sockets behind (hundreds of thousands of histories per run would exhaust the
// port range): they close with an RST, and their listeners allow address reuse
void closeRst(int fd)
{
  if(fd < 0) return;
  linger lg{1, 0};
  ::setsockopt(fd, SOL_SOCKET, SO_LINGER, &lg, sizeof(lg));
  ::close(fd);
}

int unread(int fd)
{
  int n = 0;
  if(fd >= 0) (void)::ioctl(fd, FIONREAD, &n);
  return n;
}

void waitReadable(int fd)
{
  if(fd < 0) return;
  pollfd p{fd, POLLIN, 0};
  (void)::poll(&p, 1, 2000);
}

int g_listener = -1;
uint16_t g_listenerPort = 0;

struct SockObj
{
  std::string kind;
  int drv = 0;
  bool onDisc = false, holdRx = false, sdr = false;
  std::unique_ptr<SocketTcpAsync> tcp;
  std::unique_ptr<SocketUdpAsync> udp;
  std::unique_ptr<AcceptorAsync> acc;
  int fd = -1;               // library descriptor (for readiness waits only)
  uint16_t port = 0;         // local port of udp / acceptor
  int peer = -1;             // raw peer of a tcp socket
  bool peerGone = false;        // the peer closed or reset the connection
  long peerSent = 0, delivered = 0; // tcp: bytes the peer wrote / bytes handed to the receive handler
  int udpPeer = -1;
  std::vector<int> clients;  // raw clients of an acceptor
  std::vector<BufferPtr> held;
  bool alive() const { return tcp || udp || acc; }
  void destroy() { g_failSend.erase(fd); tcp.reset(); udp.reset(); acc.reset(); fd = -1; }
};

struct World
{
  std::map<int, std::unique_ptr<Driver>> drivers;
  std::map<int, SockObj> socks;
  std::map<int, std::optional<ToDo>> todos;
  std::unique_ptr<BufferPool> pool = std::make_unique<BufferPool>(4U, 16U);
  std::vector<std::pair<std::future<void>, bool>> futs; // (future, already reported)
  std::vector<char> futEcho; // per future: its buffer is a receive buffer of the socket (echo), not one of the send pool
  std::vector<SocketTcp> accepted;
  std::vector<std::string> events;

  // buffers of the send pool currently out = sends whose future is not ready yet
  int busy()
  {
    int n = 0;
    for(size_t i = 0; i < futs.size(); ++i) {
      auto &p = futs[i];
      if(!futEcho[i] && !p.second && p.first.wait_for(std::chrono::seconds(0)) != std::future_status::ready) ++n;
    }
    return n;
  }

  void flush()
  {
    for(auto const &e : events) har::obs(e);
    events.clear();
    for(size_t i = 0; i < futs.size(); ++i) {
      auto &[f, done] = futs[i];
      if(done || f.wait_for(std::chrono::seconds(0)) != std::future_status::ready) continue;
      done = true;
      std::string st;
      try { f.get(); st = "value"; }
      catch(std::future_error const &) { st = "broken"; }
      catch(std::exception const &) { st = "exn"; }
      har::obs("fut " + std::to_string(i) + " " + st);
    }
  }
};

World *W = nullptr;

void onReceive(int i, BufferPtr b)
{
  W->events.push_back("recv " + std::to_string(i));
  auto &s = W->socks[i];
  s.delivered += static_cast<long>(b->size());
  if(s.sdr) { s.destroy(); return; } // against the rules: only on request
  if(s.holdRx) s.held.push_back(std::move(b));
}

void onReceiveFrom(int i, BufferPtr b)
{
  W->events.push_back("recvfrom " + std::to_string(i));
  auto &s = W->socks[i];
  if(s.sdr) { s.destroy(); return; }
  if(s.holdRx) s.held.push_back(std::move(b));
}

void onDisconnect(int i)
{
  W->events.push_back("disc " + std::to_string(i));
  auto &s = W->socks[i];
  if(s.onDisc) s.destroy(); // as the repo's own test does; nothing of the handler is touched afterwards
}

void runHistory(std::vector<std::string> const &ops)
{
  World w;
  W = &w;
  // connections a crashed predecessor may have left in the shared listener's backlog
  for(pollfd p{g_listener, POLLIN, 0}; ::poll(&p, 1, 0) > 0 && (p.revents & POLLIN); p.revents = 0) {
    int stale = ::accept(g_listener, nullptr, nullptr);
    if(stale < 0) break;
    closeRst(stale);
  }
  for(auto const &line : ops) {
    auto x = har::words(line);
    if(x.empty()) continue;
    har::out(line);
    auto N = [&](size_t k) { return std::stoi(x.at(k)); };
    auto drvAlive = [&](int d) { auto it = w.drivers.find(d); return it != w.drivers.end() && it->second; };
    auto sockPresent = [&](int i) { return w.socks.count(i) > 0; };
    auto sockAlive = [&](int i) { return sockPresent(i) && w.socks[i].alive(); };
    auto todoAlive = [&](int t) { auto it = w.todos.find(t); return it != w.todos.end() && it->second.has_value(); };
    // ops that would break a usage rule (object does not exist, buffers still held, ...) are not executed
    bool legal = true;
    if(x[0] == "driver") legal = !w.drivers.count(N(1));
    else if(x[0] == "ddriver" || x[0] == "step") legal = drvAlive(N(1));
    else if(x[0] == "sock") legal = !sockPresent(N(1)) && drvAlive(N(3)) && !N(6) && !(N(4) && N(5));
    else if(x[0] == "send") legal = sockAlive(N(1)) && w.socks[N(1)].kind != "acc" && w.pool && w.busy() < 4;
    else if(x[0] == "echo") legal = sockAlive(N(1)) && w.socks[N(1)].kind != "acc" && !w.socks[N(1)].held.empty();
    else if(x[0] == "release") legal = sockPresent(N(1));
    else if(x[0] == "dsock") legal = sockAlive(N(1)) && w.socks[N(1)].held.empty();
    else if(x[0] == "psend") legal = sockPresent(N(1)) && w.socks[N(1)].kind != "acc" &&
                                     (w.socks[N(1)].kind == "udp" || !w.socks[N(1)].peerGone);
    else if(x[0] == "pclose") legal = sockPresent(N(1)) && w.socks[N(1)].kind == "tcp";
    else if(x[0] == "preset") legal = sockPresent(N(1)) && w.socks[N(1)].kind == "tcp" &&
                                      !(sockAlive(N(1)) && unread(w.socks[N(1)].fd) > 0);
    else if(x[0] == "sendfail") legal = sockAlive(N(1)) && w.socks[N(1)].kind == "tcp";
    else if(x[0] == "pconn") legal = sockPresent(N(1)) && w.socks[N(1)].kind == "acc";
    else if(x[0] == "todo") legal = !w.todos.count(N(1)) && drvAlive(N(2));
    else if(x[0] == "cancel" || x[0] == "shift" || x[0] == "droptodo") legal = todoAlive(N(1));
    else if(x[0] == "dpool") legal = w.pool && w.busy() == 0;
    if(!legal) { har::obs("skipped"); continue; }
    try {
      if(x[0] == "driver") {
        w.drivers[N(1)] = std::make_unique<Driver>();
      } else if(x[0] == "ddriver") {
        w.drivers.at(N(1)).reset();
      } else if(x[0] == "step") {
        w.drivers.at(N(1))->Step(Duration(0));
      } else if(x[0] == "sock") {
        int i = N(1);
        auto &s = w.socks[i];
        s.kind = x[2];
        s.drv = N(3);
        s.onDisc = N(4); s.holdRx = N(5); s.sdr = N(6);
        auto &drv = *w.drivers.at(s.drv);
        if(s.kind == "tcp") {
          // one raw listener per harness process (created before the fork): the TIME_WAIT sockets that orderly
          // peer closes leave behind then share one port instead of using up the port range
          auto port = g_listenerPort;
          s.tcp = std::make_unique<SocketTcpAsync>(
              SocketTcpBuffered(SocketTcp(Address("127.0.0.1:" + std::to_string(port))), 2U, 64U), drv,
              [i](BufferPtr b) { onReceive(i, std::move(b)); },
              [i](Address, char const *) { int k = i; onDisconnect(k); });
          s.fd = s.tcp->impl->buff->sock->fd;
          waitReadable(g_listener);
          s.peer = ::accept(g_listener, nullptr, nullptr);
        } else if(s.kind == "udp") {
          s.udp = std::make_unique<SocketUdpAsync>(
              SocketUdpBuffered(SocketUdp(Address("127.0.0.1:0")), 2U, 64U), drv,
              [i](BufferPtr b, Address) { onReceiveFrom(i, std::move(b)); });
          s.fd = s.udp->impl->buff->sock->fd;
          s.port = s.udp->LocalAddress().Port();
          s.udpPeer = ::socket(AF_INET, SOCK_DGRAM, 0);
          (void)bindAny(s.udpPeer);
        } else {
          s.acc = std::make_unique<AcceptorAsync>(
              Acceptor(Address("127.0.0.1:0")), drv,
              [i](SocketTcp t, Address) {
                W->events.push_back("conn " + std::to_string(i));
                W->accepted.emplace_back(std::move(t));
              });
          s.fd = s.acc->impl->buff->sock->fd;
          s.port = s.acc->LocalAddress().Port();
        }
      } else if(x[0] == "send") {
        auto &s = w.socks.at(N(1));
        auto b = w.pool->Get();
        b->assign("data");
        if(s.tcp) { w.futs.emplace_back(s.tcp->Send(std::move(b)), false); w.futEcho.push_back(0); }
        else if(s.udp) {
          auto dst = loop(0);
          socklen_t l = sizeof(dst);
          ::getsockname(s.udpPeer, reinterpret_cast<sockaddr *>(&dst), &l);
          w.futs.emplace_back(s.udp->SendTo(std::move(b), Address("127.0.0.1:" + std::to_string(ntohs(dst.sin_port)))), false);
          w.futEcho.push_back(0);
        }
      } else if(x[0] == "echo") {
        // the buffer leaves the user's hands: it belongs to the socket's receive pool and now sits in its send queue
        auto &s = w.socks.at(N(1));
        auto b = std::move(s.held.back());
        s.held.pop_back();
        if(s.tcp) { w.futs.emplace_back(s.tcp->Send(std::move(b)), false); w.futEcho.push_back(1); }
        else if(s.udp) {
          auto dst = loop(0);
          socklen_t l = sizeof(dst);
          ::getsockname(s.udpPeer, reinterpret_cast<sockaddr *>(&dst), &l);
          w.futs.emplace_back(s.udp->SendTo(std::move(b), Address("127.0.0.1:" + std::to_string(ntohs(dst.sin_port)))), false);
          w.futEcho.push_back(1);
        }
      } else if(x[0] == "release") {
        w.socks.at(N(1)).held.clear();
      } else if(x[0] == "dsock") {
        w.socks.at(N(1)).destroy();
      } else if(x[0] == "psend") {
        auto &s = w.socks.at(N(1));
        if(s.kind == "tcp") {
          if(::send(s.peer, "ping", 4, MSG_NOSIGNAL) == 4) s.peerSent += 4;
          // everything the peer wrote so far must have arrived before the next op (the stream coalesces
          // unread chunks; a chunk still in flight would make the next receive nondeterministic)
          for(int spin = 0; s.alive() && unread(s.fd) < s.peerSent - s.delivered && spin < 2000; ++spin) ::usleep(1000);
        }
        else {
          auto a = loop(s.port);
          (void)::sendto(s.udpPeer, "ping", 4, 0, reinterpret_cast<sockaddr *>(&a), sizeof(a));
        }
        waitReadable(s.fd);
      } else if(x[0] == "pclose" || x[0] == "preset") {
        auto &s = w.socks.at(N(1));
        if(s.peer >= 0 && !s.peerGone) {
          if(x[0] == "preset") { closeRst(s.peer); s.peer = -1; }
          else ::shutdown(s.peer, SHUT_WR); // orderly close: FIN
          s.peerGone = true;
          waitReadable(s.fd);
        }
      } else if(x[0] == "sendfail") {
        g_failSend[w.socks.at(N(1)).fd] = ECONNRESET;
      } else if(x[0] == "pconn") {
        auto &s = w.socks.at(N(1));
        int c = ::socket(AF_INET, SOCK_STREAM, 0);
        auto a = loop(s.port);
        (void)::connect(c, reinterpret_cast<sockaddr *>(&a), sizeof(a));
        s.clients.push_back(c);
        waitReadable(s.fd);
      } else if(x[0] == "todo") {
        int t = N(1);
        auto &drv = *w.drivers.at(N(2));
        auto task = [t]() { W->events.push_back("todo " + std::to_string(t)); };
        if(N(3)) w.todos[t].emplace(drv, task, Clock::now());
        else w.todos[t].emplace(drv, task);
      } else if(x[0] == "cancel") {
        w.todos.at(N(1))->Cancel();
      } else if(x[0] == "shift") {
        w.todos.at(N(1))->Shift(Clock::now());
      } else if(x[0] == "droptodo") {
        w.todos.at(N(1)).reset();
      } else if(x[0] == "dpool") {
        w.pool.reset();
      } else {
        har::obs("badop");
      }
    } catch(std::exception const &e) {
      har::obs(std::string("throw ") + e.what());
    }
    w.flush();
  }
  // end of history: whatever is left is destroyed - sockets first, then ToDos, drivers, accepted sockets, pool
  // (the raw peers reset their connections first, so that no side lingers in TIME_WAIT)
  har::out("end");
  for(auto &[i, s] : w.socks) {
    for(int c : s.clients) closeRst(c);
    s.clients.clear();
    closeRst(s.peer);
    s.peer = -1;
  }
  for(auto &[i, s] : w.socks) { s.held.clear(); s.destroy(); }
  w.todos.clear();
  w.drivers.clear();
  w.accepted.clear();
  w.flush();
  for(size_t i = 0; i < w.futs.size(); ++i) if(!w.futs[i].second) har::obs("fut " + std::to_string(i) + " pending");
  w.futs.clear();
  w.pool.reset();
  for(auto &[i, s] : w.socks) {
    if(s.udpPeer >= 0) ::close(s.udpPeer);
  }
  har::obs("done");
}

} // unnamed namespace

int main()
{
  // (retry for a while: a previous run may have left the port range crowded with TIME_WAIT sockets)
  for(int attempt = 0; attempt < 200; ++attempt) {
    g_listener = ::socket(AF_INET, SOCK_STREAM, 0);
    g_listenerPort = bindAny(g_listener);
    if(g_listener >= 0 && g_listenerPort != 0 && ::listen(g_listener, 16) == 0) break;
    if(g_listener >= 0) ::close(g_listener);
    g_listener = -1;
    ::usleep(500000);
  }
  if(g_listener < 0) {
    std::fprintf(stderr, "lifecycle harness: cannot create its raw listener\n");
    return 3;
  }
  return har::run_cases([](std::string const &, std::vector<std::string> const &ops) {
    std::fflush(stdout);
    pid_t pid = fork();
    if(pid == 0) {
      ::alarm(60); // a history / scenario that hangs ends as 'crash signal 14' instead of blocking the check
      runHistory(ops);
      std::fflush(stdout);
      _exit(0);
    }
    int st = 0;
    waitpid(pid, &st, 0);
    if(WIFSIGNALED(st)) har::obs("crash signal " + std::to_string(WTERMSIG(st)));
    else if(WIFEXITED(st) && WEXITSTATUS(st) != 0) har::obs("crash exit " + std::to_string(WEXITSTATUS(st)));
  });
}

// C02 scenario interpreter: the async TCP send pipeline (SocketTcpAsync::Send + Driver::Step)
// over loopback against a raw peer socket played by the harness, under a short-write /
// send-failure script (vos).  Two modes:
//   sequential ops (sock / send / step / drain / peerclose / destroy): deterministic, compared
//     with the Lean model op by op;
//   mt: several producer threads + a thread in Driver::Run, checked against the property only.
#include "h/common.h"
#include "vos/vos.h"

#include "socket_async_impl.h" // internal headers (as the repo's internals test does): name the descriptor
#include "socket_buffered_impl.h"
#include "sockpuppet/socket_async.h"

#include <arpa/inet.h>
#include <atomic>
#include <cstring>
#include <future>
#include <map>
#include <memory>
#include <netinet/in.h>
#include <optional>
#include <poll.h>
#include <sys/socket.h>
#include <thread>
#include <unistd.h>

using namespace sockpuppet;

namespace {

// the real poll (the harness' own waiting must not consume script directives)
int RealPoll(pollfd *p, nfds_t n, int ms)
{
  bool was = false;
  (void)was;
  return ::poll(p, n, ms); // no directive is ever pushed for these descriptors / "poll"
}

unsigned char Pat(long id, size_t j)
{
  return static_cast<unsigned char>((id * 37 + static_cast<long>(j) * 11 + static_cast<long>(j / 251) * 3 + 1) & 0xff);
}

uint64_t Fnv(std::string const &s)
{
  uint64_t h = 14695981039346656037ULL;
  for(unsigned char c : s) { h ^= c; h *= 1099511628211ULL; }
  return h;
}

struct Peer
{
  int lfd = -1;
  int fd = -1;
  uint16_t port = 0;

  void Listen(int rcvbuf)
  {
    lfd = ::socket(AF_INET, SOCK_STREAM, 0);
    int one = 1;
    ::setsockopt(lfd, SOL_SOCKET, SO_REUSEADDR, &one, sizeof(one)); // ports of earlier cases may linger in TIME_WAIT
    if(rcvbuf > 0) ::setsockopt(lfd, SOL_SOCKET, SO_RCVBUF, &rcvbuf, sizeof(rcvbuf)); // inherited by accept()
    sockaddr_in a{};
    a.sin_family = AF_INET;
    a.sin_addr.s_addr = htonl(INADDR_LOOPBACK);
    a.sin_port = 0;
    ::bind(lfd, reinterpret_cast<sockaddr *>(&a), sizeof(a));
    ::listen(lfd, 8);
    socklen_t l = sizeof(a);
    ::getsockname(lfd, reinterpret_cast<sockaddr *>(&a), &l);
    port = ntohs(a.sin_port);
  }
  void Accept() { fd = ::accept(lfd, nullptr, nullptr); }
  // read exactly n bytes (or what arrives within the patience)
  std::string Read(size_t n, int patienceMs = 5000)
  {
    std::string out;
    std::string buf(65536, '\0');
    while(out.size() < n) {
      pollfd p{fd, POLLIN, 0};
      if(RealPoll(&p, 1, patienceMs) <= 0) break;
      auto want = std::min(buf.size(), n - out.size());
      auto r = ::read(fd, buf.data(), want);
      if(r <= 0) break;
      out.append(buf.data(), static_cast<size_t>(r));
    }
    return out;
  }
  // reset rather than FIN: leaves no TIME_WAIT entry behind (thousands of cases share the ephemeral port range)
  void Close()
  {
    if(fd >= 0) {
      linger lg{1, 0};
      ::setsockopt(fd, SOL_SOCKET, SO_LINGER, &lg, sizeof(lg));
      ::close(fd);
    }
    if(lfd >= 0) ::close(lfd);
    fd = lfd = -1;
  }
};

struct Scen
{
  std::unique_ptr<BufferPool> pool;
  size_t poolN = 0;
  std::unique_ptr<Driver> driver;
  std::optional<SocketTcpAsync> sock;
  int cfd = -1;
  Peer peer;
  std::vector<long> ids; // in creation order
  std::map<long, std::shared_future<void>> futs;
  std::map<void const *, long> owner; // buffer address -> id that used it last
  std::map<long, bool> returned;
  std::vector<long> retOrder;
  size_t accepted = 0, drained = 0;
  bool disconnected = false;
  std::vector<std::string> events;

  void Open(size_t n, int sndbuf)
  {
    poolN = n;
    pool = std::make_unique<BufferPool>(n, 0U);
    driver = std::make_unique<Driver>();
    peer.Listen(sndbuf > 0 ? 2304 : 0);
    SocketTcp tcp(Address("127.0.0.1", std::to_string(peer.port)));
    peer.Accept();
    sock.emplace(SocketTcpBuffered(std::move(tcp), 1U, 64U), *driver,
                 [this](BufferPtr b) { events.push_back("data " + std::to_string(b->size())); },
                 [this](Address, char const *) { disconnected = true; events.push_back("disconnect"); });
    cfd = sock->impl->buff->sock->fd;
    if(sndbuf > 0) ::setsockopt(cfd, SOL_SOCKET, SO_SNDBUF, &sndbuf, sizeof(sndbuf));
    vos::name_fd(cfd, "cli");
  }

  // which buffers of the (bounded) send pool are idle right now: take all, give back in reverse order
  void ProbePool()
  {
    std::vector<BufferPtr> got;
    for(;;) {
      try { got.push_back(pool->Get()); } catch(std::runtime_error const &) { break; }
      if(got.size() > poolN) break; // a pool that hands out more than N: do not loop forever
    }
    std::vector<long> now;
    for(auto const &b : got) {
      auto it = owner.find(b.get());
      if(it != owner.end() && !returned[it->second]) { returned[it->second] = true; now.push_back(it->second); }
    }
    std::sort(now.begin(), now.end());
    for(long i : now) retOrder.push_back(i);
    while(!got.empty()) got.pop_back();
  }

  static char Letter(std::shared_future<void> const &f)
  {
    if(f.wait_for(std::chrono::seconds(0)) != std::future_status::ready) return 'p';
    try { f.get(); return 'v'; }
    catch(std::future_error const &e) { return e.code() == std::future_errc::broken_promise ? 'b' : 'x'; }
    catch(std::exception const &) { return 'e'; }
  }

  void State()
  {
    ProbePool();
    std::string f;
    for(long id : ids) f.push_back(Letter(futs.at(id)));
    std::string r;
    for(long id : retOrder) r += (r.empty() ? "" : ",") + std::to_string(id);
    har::obs("st fut=" + (f.empty() ? std::string("-") : f) + " ret=" + (r.empty() ? std::string("-") : r));
  }

  void Send(long id, size_t size)
  {
    BufferPtr b;
    try { b = pool->Get(); } catch(std::runtime_error const &) { har::obs("nobuf"); return; }
    owner[b.get()] = id;
    returned[id] = false;
    b->resize(size);
    for(size_t j = 0; j < size; ++j) (*b)[j] = static_cast<char>(Pat(id, j));
    ids.push_back(id);
    futs.emplace(id, sock->Send(std::move(b)).share());
  }

  void Step(std::vector<std::string> const &w)
  {
    if(w.size() >= 2 && w[1] != "pass" && cfd >= 0)
      vos::push("send", cfd, w[1] == "fail" ? "fail" : w[1], w[1] == "fail" ? ECONNRESET : (w.size() >= 3 ? std::stol(w[2]) : 0));
    // the peer has read everything the OS accepted: wait until the kernel reports the socket writable again
    if(sock && !disconnected && accepted == drained) {
      pollfd p{cfd, POLLOUT, 0};
      (void)RealPoll(&p, 1, 1000);
    }
    (void)vos::take_log();
    vos::log_enable(true);
    events.clear();
    std::string thrown;
    try {
      driver->Step(Duration(0));
    } catch(std::logic_error const &e) {
      thrown = std::string("logic ") + e.what();
    } catch(std::exception const &e) {
      thrown = std::string("other ") + e.what();
    }
    vos::log_enable(false);
    vos::clear_script();
    bool any = false;
    for(auto const &l : vos::take_log()) {
      if(l.rfind("send cli ", 0) != 0) continue;
      any = true;
      auto lp = l.find("len=");
      auto le = l.find(' ', lp);
      auto arrow = l.find("-> ");
      std::string len = l.substr(lp + 4, le - lp - 4);
      std::string res = l.substr(arrow + 3);
      if(res.rfind("-1", 0) == 0) har::obs("sys send " + len + " fail");
      else { har::obs("sys send " + len + " " + res); accepted += std::stoull(res); }
    }
    if(!any) har::obs("sys none");
    for(auto const &e : events) har::obs("ev " + e);
    if(!thrown.empty()) har::obs("throw " + thrown);
  }

  void Close()
  {
    peer.Close(); // the peer resets first: no TIME_WAIT on either side
    sock.reset();
    driver.reset();
    futs.clear();
    pool.reset();
  }
};

// ---- multi-threaded variant ------------------------------------------------------------
void RunMt(std::vector<std::string> const &w)
{
  size_t threads = std::stoul(w[1]), per = std::stoul(w[2]), maxSize = std::stoul(w[3]), shorts = std::stoul(w[4]);
  unsigned seed = w.size() > 5 ? static_cast<unsigned>(std::stoul(w[5])) : 1U;
  Peer peer;
  peer.Listen(0);
  BufferPool pool(threads * per, 0U);
  Driver driver;
  std::atomic<int> dataEvents{0};
  SocketTcpAsync sock(SocketTcpBuffered(SocketTcp(Address("127.0.0.1", std::to_string(peer.port))), 1U, 64U), driver,
                      [&](BufferPtr) { ++dataEvents; }, [&](Address, char const *) {});
  peer.Accept();
  int cfd = sock.impl->buff->sock->fd;
  vos::name_fd(cfd, "cli");
  for(size_t i = 0; i < shorts; ++i) vos::push("send", cfd, "short", 1 + static_cast<long>((seed + i * 7) % 9));
  std::thread runner([&]() { driver.Run(); });

  std::vector<std::vector<std::shared_future<void>>> futs(threads);
  std::vector<std::thread> producers;
  size_t total = 0;
  std::vector<std::vector<size_t>> sizes(threads);
  for(size_t t = 0; t < threads; ++t)
    for(size_t s = 0; s < per; ++s) {
      size_t n = (seed * 31 + t * 17 + s * 13) % (maxSize + 1);
      sizes[t].push_back(n);
      total += 4 + n;
    }
  for(size_t t = 0; t < threads; ++t) {
    producers.emplace_back([&, t]() {
      for(size_t s = 0; s < per; ++s) {
        auto b = pool.Get();
        size_t n = sizes[t][s];
        b->resize(4 + n);
        (*b)[0] = static_cast<char>(0xF0 | t);
        (*b)[1] = static_cast<char>(s);
        (*b)[2] = static_cast<char>(n & 0xff);
        (*b)[3] = static_cast<char>(n >> 8);
        for(size_t j = 0; j < n; ++j) (*b)[4 + j] = static_cast<char>(Pat(static_cast<long>(t * 64 + s), j));
        futs[t].push_back(sock.Send(std::move(b)).share());
        if(((seed + t + s) % 3) == 0) std::this_thread::yield();
      }
    });
  }
  auto stream = peer.Read(total, 5000);
  for(auto &p : producers) p.join();
  std::string letters;
  for(size_t t = 0; t < threads; ++t) {
    for(auto &f : futs[t]) {
      (void)f.wait_for(std::chrono::seconds(2));
      letters.push_back(Scen::Letter(f));
    }
    letters.push_back('/');
  }
  // the property allows the buffer to return until the end of the driver step that resolved the future:
  // let the driver finish its step before looking at the pool
  driver.Stop();
  runner.join();
  vos::clear_script();
  // all buffers back?
  size_t back = 0;
  {
    std::vector<BufferPtr> got;
    for(;;) {
      try { got.push_back(pool.Get()); } catch(std::runtime_error const &) { break; }
      if(got.size() > threads * per) break;
    }
    back = got.size();
  }
  har::obs("mt stream " + har::hex(stream));
  har::obs("mt futs " + letters);
  har::obs("mt back " + std::to_string(back) + " " + std::to_string(threads * per));
  peer.Close();
}

} // unnamed namespace

int main()
{
  return har::run_cases([](std::string const &, std::vector<std::string> const &ops) {
    vos::reset();
    Scen sc;
    for(auto const &line : ops) {
      auto w = har::words(line);
      if(w.empty()) continue;
      // ops that cannot be performed in the current state (e.g. after shrinking removed `sock`) are skipped silently
      bool can = (w[0] == "sock" && w.size() >= 3 && !sc.driver) || (w[0] == "send" && w.size() >= 3 && sc.sock) ||
                 (w[0] == "step" && sc.driver) || (w[0] == "drain" && sc.peer.fd >= 0) ||
                 (w[0] == "peerclose" && sc.peer.fd >= 0) || (w[0] == "destroy" && sc.sock) || (w[0] == "mt" && w.size() >= 5);
      if(!can) continue;
      har::out(line);
      try {
        if(w[0] == "sock" && w.size() >= 3) {
          sc.Open(std::stoul(w[1]), std::stoi(w[2]));
        } else if(w[0] == "send" && w.size() >= 3 && sc.sock) {
          sc.Send(std::stol(w[1]), std::stoul(w[2]));
          sc.State();
        } else if(w[0] == "step" && sc.driver) {
          sc.Step(w);
          sc.State();
        } else if(w[0] == "drain" && sc.peer.fd >= 0) {
          auto got = sc.peer.Read(sc.accepted - sc.drained);
          sc.drained += got.size();
          har::obs("wire " + std::to_string(got.size()) + " " + std::to_string(Fnv(got)));
        } else if(w[0] == "peerclose" && sc.peer.fd >= 0) {
          ::close(sc.peer.fd);
          sc.peer.fd = -1;
          if(sc.sock && !sc.disconnected) {
            pollfd p{sc.cfd, POLLIN, 0};
            (void)RealPoll(&p, 1, 2000);
          }
        } else if(w[0] == "destroy" && sc.sock) {
          sc.sock.reset();
          sc.cfd = -1;
          sc.State();
        } else if(w[0] == "mt" && w.size() >= 5) {
          RunMt(w);
        }
      } catch(std::exception const &e) {
        har::obs(std::string("throw harness ") + e.what());
      }
    }
    sc.Close();
  });
}

// C16 (real signals): threads blocked in real sockpuppet waits receive real signals (handled by a
// handler installed WITHOUT SA_RESTART, so poll returns EINTR); the outcome must equal the
// signal-free outcome.  No shim, no virtual clock: this is the sanity net below the model.
#include "h/common.h"

#include "sockpuppet/socket.h"
#include "sockpuppet/socket_async.h"

#include <atomic>
#include <csignal>
#include <future>
#include <pthread.h>
#include <thread>
#include <unistd.h>

using namespace sockpuppet;

namespace {
std::atomic<int> g_signals{0};
Driver *g_driver = nullptr;

void OnUsr1(int) { ++g_signals; }
void OnInt(int) { if(g_driver) g_driver->Stop(); } // the idiom of the bundled examples

template<typename Fn>
std::string Outcome(Fn fn)
{
  try {
    return fn();
  } catch(std::exception const &e) {
    return std::string("throw ") + e.what();
  }
}

// run `body` on a thread, deliver `count` signals `sig` to it every 15 ms, then call `event` (makes the
// awaited thing happen); returns the body's outcome or "hang"
std::string UnderSignals(std::function<std::string()> body, int sig, int count, std::function<void()> event)
{
  std::packaged_task<std::string()> task([&]() { return Outcome(body); });
  auto fut = task.get_future();
  std::thread t(std::move(task));
  auto handle = t.native_handle();
  for(int i = 0; i < count; ++i) {
    ::usleep(15000);
    pthread_kill(handle, sig);
  }
  ::usleep(15000);
  try {
    event();
  } catch(std::exception const &e) {
    har::obs(std::string("event-failed ") + e.what());
  }
  std::string res = "hang";
  if(fut.wait_for(std::chrono::seconds(5)) == std::future_status::ready) {
    res = fut.get();
    t.join();
  } else {
    t.detach();
  }
  return res;
}
} // unnamed namespace

int main()
{
  struct sigaction sa {};
  sa.sa_handler = OnUsr1;
  sigaction(SIGUSR1, &sa, nullptr);
  struct sigaction si {};
  si.sa_handler = OnInt;
  sigaction(SIGINT, &si, nullptr);

  return har::run_cases([](std::string const &, std::vector<std::string> const &ops) {
    for(auto const &line : ops) {
      auto w = har::words(line);
      if(w.empty()) continue;
      har::out(line);
      int count = w.size() > 2 ? std::stoi(w[2]) : 1;
      long T = w.size() > 1 ? std::stol(w[1]) : -1;
      g_signals = 0;
      if(w[0] == "recvfrom") {
        SocketUdp sock(Address("127.0.0.1:0"));
        SocketUdp peer(Address("127.0.0.1:0"));
        auto addr = sock.LocalAddress();
        auto res = UnderSignals([&]() -> std::string {
          char buf[16];
          auto r = sock.ReceiveFrom(buf, sizeof(buf), Duration(T));
          return r ? "value " + std::to_string(r->first) : "none";
        }, SIGUSR1, count, [&]() { if(w.size() > 3 && w[3] == "data") (void)peer.SendTo("abc", 3, addr); });
        har::obs(res + " signals=" + std::to_string(g_signals.load() > 0));
      } else if(w[0] == "listen") {
        Acceptor acc(Address("127.0.0.1:0"));
        auto addr = acc.LocalAddress();
        std::optional<SocketTcp> cli;
        auto res = UnderSignals([&]() -> std::string {
          auto r = acc.Listen(Duration(T));
          return r ? "value 1" : "none";
        }, SIGUSR1, count, [&]() { if(w.size() > 3 && w[3] == "data") cli.emplace(addr); });
        har::obs(res + " signals=" + std::to_string(g_signals.load() > 0));
      } else if(w[0] == "tcprecv") {
        Acceptor acc(Address("127.0.0.1:0"));
        (void)acc.Listen(Duration(0));
        SocketTcp cli(acc.LocalAddress());
        auto srv = acc.Listen(Duration(1000));
        auto res = UnderSignals([&]() -> std::string {
          char buf[16];
          auto r = cli.Receive(buf, sizeof(buf), Duration(T));
          return r ? "value " + std::to_string(*r) : "none";
        }, SIGUSR1, count, [&]() { if(w.size() > 3 && w[3] == "data") (void)srv->first.Send("abcd", 4); });
        har::obs(res + " signals=" + std::to_string(g_signals.load() > 0));
      } else if(w[0] == "run") {
        // Stop() from a SIGINT handler must make Run() return normally
        Driver driver;
        g_driver = &driver;
        auto res = UnderSignals([&]() -> std::string {
          driver.Run();
          return "returned";
        }, w.size() > 3 && w[3] == "usr1first" ? SIGUSR1 : SIGINT, count, [&]() {});
        if(res == "hang" || (w.size() > 3 && w[3] == "usr1first")) {
          // after harmless signals: stop it for real (from this thread) and see that it returns
          driver.Stop();
          ::usleep(100000);
          har::obs(res == "hang" ? "returned-after-stop" : res);
        } else {
          har::obs(res);
        }
        g_driver = nullptr;
      } else if(w[0] == "step") {
        Driver driver;
        auto res = UnderSignals([&]() -> std::string {
          driver.Step(Duration(T));
          return "returned";
        }, SIGUSR1, count, [&]() {});
        har::obs(res + " signals=" + std::to_string(g_signals.load() > 0));
      }
    }
  });
}

// C01 / C07 / C16 scenario interpreter: the blocking socket layer (basic and buffered
// TCP/UDP sockets, Acceptor) against raw peers, under the virtual clock and a scripted OS.
// Every intercepted system call on the socket under test is reported as an observation
// (`-> sys ...`), so the Lean driver can replay the library's loops on exactly those answers.
#include "h/common.h"
#include "vos/vos.h"

#include "socket_buffered_impl.h" // internal headers, as the repo's internals test does: descriptor of the SUT
#include "socket_impl.h"
#include "sockpuppet/socket.h"
#include "sockpuppet/socket_async.h"
#include "sockpuppet/socket_buffered.h"

#include <arpa/inet.h>
#include <atomic>
#include <cerrno>
#include <cstring>
#include <fcntl.h>
#include <map>
#include <mutex>
#include <netinet/in.h>
#include <netinet/tcp.h>
#include <optional>
#include <poll.h>
#include <sys/socket.h>
#include <thread>
#include <unistd.h>

using namespace sockpuppet;

namespace {

std::string gen(unsigned long seed, size_t len)
{
  std::string s(len, '\0');
  for(size_t j = 0; j < len; ++j) s[j] = static_cast<char>((seed * 131 + j * 7 + (j >> 8) * 13 + 1) & 0xff);
  return s;
}

std::string fnv(std::string const &s)
{
  unsigned long long h = 1469598103934665603ULL;
  for(unsigned char c : s) { h ^= c; h *= 1099511628211ULL; }
  char buf[32];
  std::snprintf(buf, sizeof(buf), "%016llx", h);
  return buf;
}

struct Ctx
{
  bool v6 = false;
  std::optional<SocketTcp> tcp;
  std::optional<SocketTcpBuffered> tcpb;
  std::optional<SocketUdp> udp;
  std::optional<SocketUdpBuffered> udpb;
  std::optional<Acceptor> acc;
  std::optional<Driver> driver;           // C10: the buffered TCP socket handed over to a driver (its receive pool goes along)
  std::optional<SocketTcpAsync> tcpa;
  int sutFd = -1;
  int peerFd = -1;
  int lsnFd = -1;
  size_t rxSize = 0;
  std::thread drain;
  std::atomic<bool> stop{false};
  std::mutex m;
  std::string peerGot;
  size_t accepted = 0; // bytes the SUT's send() calls were accepted for
  std::optional<Address> peerAddr;
  std::map<void const *, size_t> bufOrd;            // receive buffer address -> first-seen ordinal
  std::vector<std::pair<size_t, BufferPtr>> heldBufs; // receive buffers the "user" keeps

  sockaddr_storage Loop(uint16_t port, socklen_t &len) const
  {
    sockaddr_storage ss{};
    if(v6) {
      auto *a = reinterpret_cast<sockaddr_in6 *>(&ss);
      a->sin6_family = AF_INET6;
      a->sin6_addr = in6addr_loopback;
      a->sin6_port = htons(port);
      len = sizeof(sockaddr_in6);
    } else {
      auto *a = reinterpret_cast<sockaddr_in *>(&ss);
      a->sin_family = AF_INET;
      a->sin_addr.s_addr = htonl(INADDR_LOOPBACK);
      a->sin_port = htons(port);
      len = sizeof(sockaddr_in);
    }
    return ss;
  }

  static uint16_t PortOf(int fd)
  {
    sockaddr_storage ss{};
    socklen_t l = sizeof(ss);
    ::getsockname(fd, reinterpret_cast<sockaddr *>(&ss), &l);
    return ntohs(ss.ss_family == AF_INET6 ? reinterpret_cast<sockaddr_in6 *>(&ss)->sin6_port
                                          : reinterpret_cast<sockaddr_in *>(&ss)->sin_port);
  }

  std::string Uri(uint16_t port) const
  {
    return (v6 ? "[::1]:" : "127.0.0.1:") + std::to_string(port);
  }

  void StartDrain()
  {
    drain = std::thread([this]() {
      vos::Bypass bypass;
      char buf[65536];
      while(!stop) {
        pollfd p{peerFd, POLLIN, 0};
        if(::poll(&p, 1, 20) > 0) {
          auto r = ::recv(peerFd, buf, sizeof(buf), MSG_DONTWAIT);
          if(r > 0) {
            std::lock_guard<std::mutex> l(m);
            peerGot.append(buf, static_cast<size_t>(r));
          } else if(r == 0) {
            break;
          }
        }
      }
    });
  }

  void Teardown()
  {
    stop = true;
    if(drain.joinable()) drain.join();
    heldBufs.clear(); // buffers go back before their pool (inside the socket) is destroyed
    tcpa.reset(); driver.reset();
    tcp.reset(); tcpb.reset(); udp.reset(); udpb.reset(); acc.reset();
    vos::Bypass bypass;
    if(peerFd >= 0) ::close(peerFd);
    if(lsnFd >= 0) ::close(lsnFd);
  }
};

// translate the shim's log lines about the socket under test into observations
void ReportSys(Ctx &c)
{
  for(auto const &l : vos::take_log()) {
    auto num = [&](char const *key) -> long long {
      auto p = l.find(key);
      return p == std::string::npos ? 0 : std::atoll(l.c_str() + p + std::strlen(key));
    };
    auto res = [&]() -> std::pair<long long, long long> { // (result, errno)
      auto p = l.rfind("-> ");
      long long r = std::atoll(l.c_str() + p + 3);
      auto e = l.find("errno=", p);
      return {r, e == std::string::npos ? 0 : std::atoll(l.c_str() + e + 6)};
    };
    if(l.rfind("poll [", 0) == 0) {
      if(l.find("[sut:") == std::string::npos) continue;
      auto [r, e] = res();
      std::string ans = r > 0 ? "ready" : (r == 0 ? "timeout" : (e == EINTR ? "eintr" : "fail:" + std::to_string(e)));
      har::obs("sys poll " + std::to_string(num("timeout=")) + " " + ans + " " + std::to_string(num("adv=")));
    } else if(l.rfind("send sut ", 0) == 0 || l.rfind("sendto sut ", 0) == 0) {
      auto [r, e] = res();
      if(r > 0) c.accepted += static_cast<size_t>(r);
      bool nosig = l.find("nosignal=1") != std::string::npos || l.rfind("sendto", 0) == 0;
      har::obs(std::string("sys send ") + std::to_string(num("len=")) + " " +
               (r >= 0 ? "acc:" + std::to_string(r) : "fail:" + std::to_string(e)) + (nosig ? "" : " NOSIGNAL-MISSING"));
    } else if(l.rfind("recv sut ", 0) == 0 || l.rfind("recvfrom sut ", 0) == 0) {
      auto [r, e] = res();
      bool dgram = l.rfind("recvfrom", 0) == 0;
      har::obs(std::string("sys recv ") + std::to_string(num("len=")) + " " +
               (r > 0 || (dgram && r == 0) ? "got:" + std::to_string(r) : (r == 0 ? std::string("eof") : "fail:" + std::to_string(e))));
    } else if(l.rfind("accept sut ", 0) == 0) {
      auto [r, e] = res();
      har::obs(std::string("sys recv 0 ") + (l.find("-> -1") == std::string::npos ? "got:1" : "fail:" + std::to_string(e)));
    }
  }
}

template<typename Fn>
void Guarded(Ctx &c, Fn fn)
{
  struct Cleanup
  {
    ~Cleanup() { vos::clear_script(); } // scripted answers never leak into the next operation
  } cleanup;
  try {
    fn();
  } catch(std::system_error const &e) {
    ReportSys(c);
    har::obs("throw system " + std::to_string(e.code().value()));
  } catch(std::logic_error const &) {
    ReportSys(c);
    har::obs("throw logic");
  } catch(std::runtime_error const &e) {
    ReportSys(c);
    har::obs(std::string(e.what()) == "out of buffers" ? "throw outofbuffers" : "throw closed");
  } catch(std::exception const &) {
    ReportSys(c);
    har::obs("throw other");
  }
}

void Setup(Ctx &c, std::vector<std::string> const &w)
{
  if(w[0] == "tcp" && w.size() >= 4) {
        // tcp <v4|v6> <basic|buffered> <cli|srv> [sndbuf N] [rx count size]
        c.v6 = (w[1] == "v6");
        size_t sndbuf = 0, rxCount = 0, rxSize = 0;
        for(size_t i = 4; i + 1 < w.size(); ++i) {
          if(w[i] == "sndbuf") sndbuf = std::stoul(w[i + 1]);
          if(w[i] == "rx" && i + 2 < w.size()) { rxCount = std::stoul(w[i + 1]); rxSize = std::stoul(w[i + 2]); }
        }
        std::optional<SocketTcp> sock;
        {
          vos::Bypass bypass;
          socklen_t len;
          auto any = c.Loop(0, len);
          if(w[3] == "cli") {
            c.lsnFd = ::socket(c.v6 ? AF_INET6 : AF_INET, SOCK_STREAM, 0);
            ::bind(c.lsnFd, reinterpret_cast<sockaddr *>(&any), len);
            ::listen(c.lsnFd, 4);
          } else {
            c.peerFd = ::socket(c.v6 ? AF_INET6 : AF_INET, SOCK_STREAM, 0);
          }
        }
        if(w[3] == "cli") {
          uint16_t port;
          { vos::Bypass bypass; port = Ctx::PortOf(c.lsnFd); }
          sock.emplace(Address(c.Uri(port)));
          vos::Bypass bypass;
          c.peerFd = ::accept(c.lsnFd, nullptr, nullptr);
        } else {
          c.acc.emplace(Address(c.Uri(0)));
          (void)c.acc->Listen(Duration(0));
          uint16_t port;
          {
            vos::Bypass bypass;
            port = Ctx::PortOf(c.acc->impl->fd);
            socklen_t len;
            auto to = c.Loop(port, len);
            ::connect(c.peerFd, reinterpret_cast<sockaddr *>(&to), len);
          }
          auto a = c.acc->Listen(Duration(2000));
          if(!a) throw std::runtime_error("accept timed out");
          sock.emplace(std::move(a->first));
        }
        c.sutFd = sock->impl->fd;
        {
          vos::Bypass bypass;
          int one = 1;
          ::setsockopt(c.peerFd, IPPROTO_TCP, TCP_NODELAY, &one, sizeof(one));
          ::setsockopt(c.sutFd, IPPROTO_TCP, TCP_NODELAY, &one, sizeof(one));
          if(sndbuf) {
            int v = static_cast<int>(sndbuf);
            ::setsockopt(c.sutFd, SOL_SOCKET, SO_SNDBUF, &v, sizeof(v));
          }
        }
        if(w[2] == "buffered") {
          c.tcpb.emplace(std::move(*sock), rxCount, rxSize);
          c.rxSize = c.tcpb->impl->rxBufSize;
        } else {
          c.tcp.emplace(std::move(*sock));
        }
        vos::name_fd(c.sutFd, "sut");
        c.StartDrain();
        vos::log_enable(true);
        (void)vos::take_log();
  } else if(w[0] == "udp" && w.size() >= 3) {
        c.v6 = (w[1] == "v6");
        size_t rxCount = 0, rxSize = 0;
        for(size_t i = 3; i + 2 < w.size(); ++i)
          if(w[i] == "rx") { rxCount = std::stoul(w[i + 1]); rxSize = std::stoul(w[i + 2]); }
        SocketUdp sock{Address(c.Uri(0))};
        c.sutFd = sock.impl->fd;
        uint16_t sutPort, peerPort;
        {
          vos::Bypass bypass;
          socklen_t len;
          auto any = c.Loop(0, len);
          c.peerFd = ::socket(c.v6 ? AF_INET6 : AF_INET, SOCK_DGRAM, 0);
          ::bind(c.peerFd, reinterpret_cast<sockaddr *>(&any), len);
          sutPort = Ctx::PortOf(c.sutFd);
          peerPort = Ctx::PortOf(c.peerFd);
          auto to = c.Loop(sutPort, len);
          ::connect(c.peerFd, reinterpret_cast<sockaddr *>(&to), len); // peer's datagrams go to the SUT
        }
        c.peerAddr.emplace(c.Uri(peerPort));
        if(w[2] == "buffered") {
          c.udpb.emplace(std::move(sock), rxCount, rxSize);
          c.rxSize = c.udpb->impl->rxBufSize;
        } else {
          c.udp.emplace(std::move(sock));
        }
        vos::name_fd(c.sutFd, "sut");
        vos::log_enable(true);
        (void)vos::take_log();
  } else if(w[0] == "acceptor" && w.size() >= 2) {
        c.v6 = (w[1] == "v6");
        c.acc.emplace(Address(c.Uri(0)));
        c.sutFd = c.acc->impl->fd;
        (void)c.acc->Listen(Duration(0)); // listen() happens inside Listen
        vos::name_fd(c.sutFd, "sut");
        vos::log_enable(true);
        (void)vos::take_log();
  }
}

} // unnamed namespace

int main()
{
  return har::run_cases([](std::string const &, std::vector<std::string> const &ops) {
    vos::reset();
    vos::virtual_time(true);
    vos::set_ns(1000000000LL);
    Ctx c;
    bool skipped = false;
    for(auto const &line : ops) {
      auto w = har::words(line);
      if(w.empty()) continue;
      har::out(line);
      if(skipped) continue;
      if(w[0] == "tcp" || w[0] == "udp" || w[0] == "acceptor") {
        // environment trouble while setting the scenario up (e.g. ephemeral ports exhausted on a
        // loaded machine) is not a verdict about the library: the case is skipped and re-run later
        try {
          Setup(c, w);
        } catch(std::exception const &e) {
          har::obs(std::string("skip setup failed: ") + e.what());
          skipped = true;
        }
        continue;
      }
      if(false) {
      } else if(w[0] == "os" && w.size() >= 3) {
        vos::push(w[1], c.sutFd, w[2], w.size() > 3 ? std::stol(w[3]) : 0);
      } else if(w[0] == "send" && w.size() == 4) {
        auto data = gen(std::stoul(w[2]), std::stoul(w[1]));
        auto T = Duration(std::stoll(w[3]));
        Guarded(c, [&]() {
          size_t n = c.tcp ? c.tcp->Send(data.data(), data.size(), T) : c.tcpb->Send(data.data(), data.size(), T);
          ReportSys(c);
          har::obs("ret " + std::to_string(n));
        });
      } else if(w[0] == "recv" && w.size() == 3) {
        auto T = Duration(std::stoll(w[2]));
        Guarded(c, [&]() {
          if(c.tcp) {
            std::string buf(std::stoul(w[1]), '\0');
            auto r = c.tcp->Receive(buf.data(), buf.size(), T);
            ReportSys(c);
            if(r) har::obs("ret " + std::to_string(*r) + " " + fnv(buf.substr(0, *r)));
            else har::obs("ret none");
          } else {
            auto r = c.tcpb->Receive(T);
            ReportSys(c);
            if(r) har::obs("ret " + std::to_string((*r)->size()) + " " + fnv(**r));
            else har::obs("ret none");
          }
        });
      } else if((w[0] == "recvhold" || w[0] == "recvfromhold") && w.size() == 2 && !(w[0] == "recvhold" ? bool(c.tcpb) : bool(c.udpb))) {
        // the socket was handed to a driver (or never existed): nothing to do
      } else if((w[0] == "recvhold" || w[0] == "recvfromhold") && w.size() == 2) {
        // buffered receive that KEEPS the buffer (C10: receive pools)
        auto T = Duration(std::stoll(w[1]));
        Guarded(c, [&]() {
          std::optional<BufferPtr> got;
          if(w[0] == "recvhold") {
            got = c.tcpb->Receive(T);
          } else if(auto r = c.udpb->ReceiveFrom(T)) {
            got = std::move(r->first);
          }
          ReportSys(c);
          if(got) {
            auto it = c.bufOrd.find(got->get());
            size_t ord = (it == c.bufOrd.end() ? c.bufOrd.emplace(got->get(), c.bufOrd.size()).first->second : it->second);
            har::obs("ret held " + std::to_string(ord) + " " + std::to_string((*got)->size()));
            c.heldBufs.emplace_back(ord, std::move(*got));
          } else {
            har::obs("ret none");
          }
        });
      } else if(w[0] == "toasync") {
        // hand the buffered TCP socket over to a driver: from now on the driver receives with the SAME pool
        if(c.tcpb && !c.tcpa) {
          c.driver.emplace();
          Ctx *cp = &c;
          c.tcpa.emplace(std::move(*c.tcpb), *c.driver,
            [cp](BufferPtr buf) {
              auto it = cp->bufOrd.find(buf.get());
              size_t ord = (it == cp->bufOrd.end() ? cp->bufOrd.emplace(buf.get(), cp->bufOrd.size()).first->second : it->second);
              har::obs("arx " + std::to_string(ord) + " " + std::to_string(buf->size()));
              cp->heldBufs.emplace_back(ord, std::move(buf));   // the "user" keeps it until a dropbuf
            },
            [](Address, char const *reason) {
              har::obs(std::string("adisc ") + (std::string(reason) == "out of buffers" ? "outofbuffers" : "other"));
            });
          c.tcpb.reset();
          har::obs("async");
        }
      } else if(w[0] == "astep") {
        if(c.tcpa) {
          Guarded(c, [&]() {
            c.driver->Step(Duration(0));
            ReportSys(c);
            har::obs("ret astep");
          });
        }
      } else if(w[0] == "dropbuf" && w.size() == 2) {
        if(!c.heldBufs.empty()) {
          auto k = std::stoul(w[1]) % c.heldBufs.size();
          har::obs("dropped " + std::to_string(c.heldBufs[k].first));
          c.heldBufs.erase(c.heldBufs.begin() + static_cast<long>(k));
        }
      } else if(w[0] == "psend" && w.size() == 3) {
        auto data = gen(std::stoul(w[2]), std::stoul(w[1]));
        vos::Bypass bypass;
        size_t off = 0;
        while(off < data.size()) {
          auto r = ::send(c.peerFd, data.data() + off, data.size() - off, MSG_NOSIGNAL);
          if(r <= 0) break;
          off += static_cast<size_t>(r);
        }
        pollfd p{c.sutFd, POLLIN, 0};
        (void)::poll(&p, 1, 2000); // make sure the kernel has made it readable
      } else if(w[0] == "pclose" || w[0] == "pshutwr" || w[0] == "prst") {
        c.stop = true;
        if(c.drain.joinable()) c.drain.join();
        vos::Bypass bypass;
        if(w[0] == "pshutwr") {
          ::shutdown(c.peerFd, SHUT_WR);
        } else {
          if(w[0] == "prst") { linger lg{1, 0}; ::setsockopt(c.peerFd, SOL_SOCKET, SO_LINGER, &lg, sizeof(lg)); }
          ::close(c.peerFd);
          c.peerFd = -1;
        }
        pollfd p{c.sutFd, POLLIN, 0};
        (void)::poll(&p, 1, 2000);
      } else if(w[0] == "sync") {
        // wait until the peer has obtained everything the kernel accepted from the SUT
        for(int i = 0; i < 300; ++i) {
          {
            std::lock_guard<std::mutex> l(c.m);
            if(c.peerGot.size() >= c.accepted) break;
          }
          vos::Bypass bypass;
          ::usleep(10000);
        }
        std::lock_guard<std::mutex> l(c.m);
        har::obs("peer " + std::to_string(c.peerGot.size()) + " " + fnv(c.peerGot));
      } else if(w[0] == "sendto" && w.size() == 4) {
        auto data = gen(std::stoul(w[2]), std::stoul(w[1]));
        auto T = Duration(std::stoll(w[3]));
        Guarded(c, [&]() {
          size_t n = c.udp ? c.udp->SendTo(data.data(), data.size(), *c.peerAddr, T)
                           : c.udpb->SendTo(data.data(), data.size(), *c.peerAddr, T);
          ReportSys(c);
          har::obs("ret " + std::to_string(n));
        });
      } else if(w[0] == "pdgram" && w.size() == 3) {
        auto data = gen(std::stoul(w[2]), std::stoul(w[1]));
        vos::Bypass bypass;
        (void)::send(c.peerFd, data.data(), data.size(), 0);
        pollfd p{c.sutFd, POLLIN, 0};
        (void)::poll(&p, 1, 2000);
      } else if(w[0] == "precv") {
        // what the raw UDP peer obtained (one datagram)
        vos::Bypass bypass;
        pollfd p{c.peerFd, POLLIN, 0};
        std::string buf(70000, '\0');
        if(::poll(&p, 1, 1000) > 0) {
          auto r = ::recv(c.peerFd, buf.data(), buf.size(), 0);
          har::obs("pgot " + std::to_string(r) + " " + fnv(buf.substr(0, r > 0 ? static_cast<size_t>(r) : 0)));
        } else {
          har::obs("pgot none");
        }
      } else if(w[0] == "recvfrom" && w.size() == 3) {
        auto T = Duration(std::stoll(w[2]));
        Guarded(c, [&]() {
          if(c.udp) {
            std::string buf(std::stoul(w[1]), '\0');
            auto r = c.udp->ReceiveFrom(buf.data(), buf.size(), T);
            ReportSys(c);
            if(r) har::obs("ret " + std::to_string(r->first) + " " + fnv(buf.substr(0, r->first)));
            else har::obs("ret none");
          } else {
            auto r = c.udpb->ReceiveFrom(T);
            ReportSys(c);
            if(r) har::obs("ret " + std::to_string(r->first->size()) + " " + fnv(*r->first));
            else har::obs("ret none");
          }
        });
      } else if(w[0] == "pconnect") {
        vos::Bypass bypass;
        socklen_t len;
        auto to = c.Loop(Ctx::PortOf(c.sutFd), len);
        int fd = ::socket(c.v6 ? AF_INET6 : AF_INET, SOCK_STREAM, 0);
        ::connect(fd, reinterpret_cast<sockaddr *>(&to), len);
        if(c.peerFd >= 0) ::close(c.peerFd);
        c.peerFd = fd;
        pollfd p{c.sutFd, POLLIN, 0};
        (void)::poll(&p, 1, 2000);
      } else if(w[0] == "listen" && w.size() == 2) {
        auto T = Duration(std::stoll(w[1]));
        Guarded(c, [&]() {
          auto r = c.acc->Listen(T);
          ReportSys(c);
          har::obs(r ? "ret 1" : "ret none");
        });
      } else if(w[0] == "now") {
        har::obs("now " + std::to_string(vos::now_ns()));
      }
    }
    vos::log_enable(false);
    c.Teardown();
  });
}

// C06 / C07(Step) scenario interpreter: ToDos and Driver::Step under the virtual clock.
#include "h/common.h"
#include "vos/vos.h"

#include "driver_impl.h" // internal header (as the repo's internals test does): name the pipe descriptor
#include "sockpuppet/socket_async.h"

#include <map>
#include <memory>
#include <optional>
#include <set>
#include <unistd.h>

using namespace sockpuppet;

namespace {

struct Scen
{
  std::unique_ptr<Driver> driver;
  std::map<long, std::optional<ToDo>> handles; // id -> handle (nullopt = dropped)
  std::map<long, std::vector<std::string>> bodies;
  std::set<long> known;
  bool withResults = false; // C16: report every poll with its result (EINTR injected)
  long runs = 0;

  TimePoint At(long long ns) const { return TimePoint(std::chrono::nanoseconds(ns)); }

  // print the driver's socket waits seen so far
  void DrainPolls()
  {
    for(auto const &l : vos::take_log()) {
      if(l.rfind("poll [pipe:", 0) == 0) {
        auto p = l.find("timeout=");
        auto e = l.find(' ', p);
        auto a = l.find("at=");
        auto ae = l.find(' ', a);
        std::string res = l.find("-> -1 errno=4") != std::string::npos ? "eintr" : (l.find("-> 0") != std::string::npos ? "timeout" : "ready");
        auto d = l.find("adv=");
        auto de = l.find(' ', d);
        if(withResults) har::obs("poll " + l.substr(p + 8, e - p - 8) + " " + l.substr(a + 3, ae - a - 3) + " " + res + " " + l.substr(d + 4, de - d - 4));
        else har::obs("poll " + l.substr(p + 8, e - p - 8) + " " + l.substr(a + 3, ae - a - 3));
      }
    }
  }

  std::function<void()> Task(long id)
  {
    return [this, id]() {
      DrainPolls();
      if(++runs > 3000) { // a livelock of the generated bodies, not of the library: do not flood the transcript
        har::obs("hang livelock: more than 3000 task invocations in one case");
        _exit(96);
      }
      har::obs("ran " + std::to_string(id) + " " + std::to_string(vos::now_ns()));
      auto body = bodies[id]; // copy: the body may replace handles
      for(auto const &tok : body) Apply(tok);
    };
  }

  static std::vector<std::string> Split(std::string const &s, char c)
  {
    std::vector<std::string> out;
    std::string cur;
    for(char ch : s) {
      if(ch == c) { out.push_back(cur); cur.clear(); } else cur.push_back(ch);
    }
    out.push_back(cur);
    return out;
  }

  bool Live(long id) { auto it = handles.find(id); return it != handles.end() && it->second.has_value(); }

  void Apply(std::string const &tok)
  {
    auto f = Split(tok, ':');
    if(f[0] == "shift" && Live(std::stol(f[1]))) handles[std::stol(f[1])]->Shift(At(std::stoll(f[2])));
    else if(f[0] == "shiftd" && Live(std::stol(f[1]))) handles[std::stol(f[1])]->Shift(Duration(std::stoll(f[2])));
    else if(f[0] == "cancel" && Live(std::stol(f[1]))) handles[std::stol(f[1])]->Cancel();
    else if(f[0] == "newat" && !known.count(std::stol(f[1]))) {
      long id = std::stol(f[1]);
      known.insert(id);
      handles[id].emplace(*driver, Task(id), At(std::stoll(f[2])));
    } else if(f[0] == "newin" && !known.count(std::stol(f[1]))) {
      long id = std::stol(f[1]);
      known.insert(id);
      handles[id].emplace(*driver, Task(id), Duration(std::stoll(f[2])));
    } else if(f[0] == "drop") {
      auto it = handles.find(std::stol(f[1]));
      if(it != handles.end()) it->second.reset();
    } else if(f[0] == "adv") vos::advance_ns(std::stoll(f[1]));
    else if(f[0] == "stop") driver->Stop();
  }
};

} // unnamed namespace

int main()
{
  return har::run_cases([](std::string const &, std::vector<std::string> const &ops) {
    vos::reset();
    vos::virtual_time(true);
    vos::set_ns(0);
    vos::hang_returns(true);
    Scen sc;
    sc.driver = std::make_unique<Driver>();
    vos::name_fd(sc.driver->impl->pipeTo.fd, "pipe");
    vos::log_enable(true);

    for(auto const &line : ops) {
      auto w = har::words(line);
      if(w.empty()) continue;
      har::out(line);
      if(w[0] == "new" && w.size() >= 4) {
        long id = std::stol(w[1]);
        if(sc.known.count(id)) continue;
        sc.known.insert(id);
        sc.bodies[id] = std::vector<std::string>(w.begin() + 4, w.end());
        sc.handles[id].emplace(*sc.driver, sc.Task(id), sc.At(std::stoll(w[3])));
      } else if(w[0] == "newin" && w.size() >= 3) {
        long id = std::stol(w[1]);
        if(sc.known.count(id)) continue;
        sc.known.insert(id);
        sc.bodies[id] = std::vector<std::string>(w.begin() + 3, w.end());
        sc.handles[id].emplace(*sc.driver, sc.Task(id), Duration(std::stoll(w[2])));
      } else if(w[0] == "newidle" && w.size() >= 2) {
        long id = std::stol(w[1]);
        if(sc.known.count(id)) continue;
        sc.known.insert(id);
        sc.bodies[id] = std::vector<std::string>(w.begin() + 2, w.end());
        sc.handles[id].emplace(*sc.driver, sc.Task(id));
      } else if(w[0] == "shift" || w[0] == "shiftd" || w[0] == "cancel" || w[0] == "drop") {
        std::string tok = w[0];
        for(size_t i = 1; i < w.size(); ++i) tok += ":" + w[i];
        sc.Apply(tok);
      } else if(w[0] == "eintr" && w.size() == 2) {
        sc.withResults = true;
        vos::push("poll", sc.driver->impl->pipeTo.fd, "eintr", std::stol(w[1]));
      } else if(w[0] == "stop") {
        sc.driver->Stop();
      } else if(w[0] == "clock") {
        if(std::stoll(w[1]) >= vos::now_ns()) vos::set_ns(std::stoll(w[1]));
      } else if(w[0] == "step") {
        (void)vos::take_log();
        har::obs("begin " + std::to_string(vos::now_ns()));
        try {
          sc.driver->Step(Duration(std::stoll(w[1])));
        } catch(std::exception const &e) {
          har::obs(std::string("throw ") + e.what());
        }
        sc.DrainPolls();
        vos::clear_script();
        har::obs("end " + std::to_string(vos::now_ns()));
      }
    }
    vos::log_enable(false);
    sc.handles.clear();
    sc.driver.reset();
  });
}

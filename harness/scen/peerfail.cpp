// C15 scenario interpreter: the peer of a library socket X closes / half-closes / resets the
// connection at a chosen point of a bidirectional transfer (or of the TLS handshake).
//
// X is {basic, buffered, async} x {plain, TLS}; the peer is a raw socket owned by the harness
// (plain) or a second library TLS socket whose descriptor the harness abuses (TLS).  Every case
// runs in a forked child with SIGPIPE at its DEFAULT disposition: death by signal is the outcome
// "killed".  The transcript uses the event vocabulary of scen/tls.cpp; the Lean driver
// (Drive/C15.lean) replays the kernel's answers into the model (allowed set = what the model does
// with exactly these answers) and evaluates Spec.C15 on the observations.
#include "h/common.h"
#include "vos/vos.h"

#include "driver_impl.h"
#include "socket_async_impl.h"
#include "socket_buffered_impl.h"
#include "sockpuppet/socket_async.h"
#ifdef SOCKPUPPET_WITH_TLS
#include "socket_tls_impl.h"
#include <openssl/ssl.h>
#endif

#include <arpa/inet.h>
#include <atomic>
#include <csignal>
#include <dlfcn.h>
#include <future>
#include <map>
#include <mutex>
#include <netinet/in.h>
#include <netinet/tcp.h>
#include <optional>
#include <random>
#include <sys/socket.h>
#include <sys/wait.h>
#include <unistd.h>

using namespace sockpuppet;

#ifdef SOCKPUPPET_WITH_TLS
namespace reg {
std::map<SSL const *, std::string> ssls;
std::map<BIO const *, std::pair<std::string, char>> bios;
bool on = false;
char const *errName(int e)
{
  switch(e) {
  case SSL_ERROR_NONE: return "none";
  case SSL_ERROR_WANT_READ: return "want_read";
  case SSL_ERROR_WANT_WRITE: return "want_write";
  case SSL_ERROR_ZERO_RETURN: return "zero_return";
  case SSL_ERROR_SYSCALL: return "syscall";
  case SSL_ERROR_SSL: return "ssl";
  default: return "other";
  }
}
std::string name(SSL const *s)
{
  auto it = ssls.find(s);
  return (on && it != ssls.end()) ? it->second : std::string();
}
} // namespace reg

extern "C" {
int SSL_read(SSL *ssl, void *buf, int num)
{
  static auto fn = reinterpret_cast<int (*)(SSL *, void *, int)>(dlsym(RTLD_NEXT, "SSL_read"));
  auto who = reg::name(ssl);
  if(who.empty()) return fn(ssl, buf, num);
  vos::log_note("ssl " + who + " read " + std::to_string(num));
  int r;
  try { r = fn(ssl, buf, num); } catch(...) { vos::log_note("sslexn " + who); throw; }
  int err = SSL_get_error(ssl, r);
  vos::log_note("sslret " + who + " " + (r > 0 ? "done " + std::to_string(r) : std::string(reg::errName(err))) +
                " init=" + (SSL_is_init_finished(ssl) ? "1" : "0"));
  return r;
}
int SSL_write_ex(SSL *ssl, void const *buf, size_t num, size_t *written)
{
  static auto fn = reinterpret_cast<int (*)(SSL *, void const *, size_t, size_t *)>(dlsym(RTLD_NEXT, "SSL_write_ex"));
  auto who = reg::name(ssl);
  if(who.empty()) return fn(ssl, buf, num, written);
  vos::log_note("ssl " + who + " write " + std::to_string(num));
  int r;
  try { r = fn(ssl, buf, num, written); } catch(...) { vos::log_note("sslexn " + who); throw; }
  int err = SSL_get_error(ssl, r);
  vos::log_note("sslret " + who + " " + (r > 0 ? "done " + std::to_string(*written) : std::string(reg::errName(err))) +
                " init=" + (SSL_is_init_finished(ssl) ? "1" : "0"));
  return r;
}
void *BIO_get_data(BIO *b)
{
  static auto fn = reinterpret_cast<void *(*)(BIO *)>(dlsym(RTLD_NEXT, "BIO_get_data"));
  if(reg::on) {
    auto it = reg::bios.find(b);
    if(it != reg::bios.end()) vos::log_note(std::string("bio ") + it->second.first + " " + it->second.second);
  }
  return fn(b);
}
}
#endif // SOCKPUPPET_WITH_TLS

namespace {

std::string certDir()
{
  if(auto e = std::getenv("VERIF_CERTS")) return e;
  return "harness/certs";
}

BufferPtr ToBufferPtr(std::string const &s)
{
  static BufferPool pool;
  auto p = pool.Get();
  p->assign(s);
  return p;
}

std::string excName(std::exception const &e)
{
  if(dynamic_cast<std::future_error const *>(&e)) return "future_error";
  if(dynamic_cast<std::system_error const *>(&e)) return "system_error";
  if(dynamic_cast<std::logic_error const *>(&e)) return "logic_error";
  if(dynamic_cast<std::runtime_error const *>(&e)) return "runtime_error";
  return "exception";
}

// translate the vos log into tagged events (only descriptor "x" and our own notes are of interest)
void Drain()
{
  for(auto const &l : vos::take_log()) {
    auto w = har::words(l);
    if(w.empty()) continue;
    if(w[0] == "poll" && w.size() >= 2 && w[1][0] == '[') {
      auto lb = l.find('['), rb = l.find(']');
      auto who = l.substr(lb + 1, rb - lb - 1);
      auto tp = l.find("timeout=");
      auto te = l.find(' ', tp);
      auto timeout = l.substr(tp + 8, te - tp - 8);
      auto ar = l.find("-> ");
      auto rest = har::words(l.substr(ar + 3));
      std::string res = rest.empty() ? "?" : rest[0];
      std::string rev = "0";
      auto rp = l.find("rev=");
      if(rp != std::string::npos) rev = l.substr(rp + 4);
      std::vector<std::string> fds, revs;
      {
        std::string cur;
        for(char ch : who) { if(ch == ',') { fds.push_back(cur); cur.clear(); } else cur.push_back(ch); }
        fds.push_back(cur);
        cur.clear();
        for(char ch : rev) { if(ch == ',') { revs.push_back(cur); cur.clear(); } else cur.push_back(ch); }
        revs.push_back(cur);
      }
      bool interesting = false;
      for(auto const &f : fds) if(f.rfind("x:", 0) == 0) interesting = true;
      if(!interesting) continue;
      if(fds.size() == 1) {
        auto col = fds[0].find(':');
        int ev = std::stoi(fds[0].substr(col + 1));
        std::string r = (res == "0") ? "timeout" : (res[0] == '-' ? "err" : "ready");
        har::obs("os x poll " + std::string(ev == POLLIN ? "in" : (ev == POLLOUT ? "out" : std::to_string(ev))) + " " + timeout + " " + r);
      } else {
        std::string line = "dpoll " + timeout + " " + res;
        for(size_t i = 0; i < fds.size(); ++i) line += " " + fds[i] + ":" + (i < revs.size() ? revs[i] : "0");
        har::obs(line);
      }
    } else if((w[0] == "send" || w[0] == "recv") && w.size() >= 2 && w[1] == "x") {
      auto lp = l.find("len=");
      auto le = l.find(' ', lp);
      auto ar = l.find("-> ");
      auto rest = har::words(l.substr(ar + 3));
      std::string res = rest[0] == "-1" ? "fail " + rest[1].substr(6) : rest[0];
      if(w[0] == "send") {
        std::string ns = l.find("nosignal=1") != std::string::npos ? "1" : "0";
        har::obs("os x send " + l.substr(lp + 4, le - lp - 4) + " ns=" + ns + " " + res);
      } else {
        har::obs("os x recv " + l.substr(lp + 4, le - lp - 4) + " " + res);
      }
    } else if(w[0] == "ssl" || w[0] == "sslret" || w[0] == "sslexn" || w[0] == "bio" || w[0] == "api" || w[0] == "ret" ||
              w[0] == "rx" || w[0] == "disc" || w[0] == "fut" || w[0] == "enq" || w[0] == "peer" || w[0] == "destroy" || w[0] == "dpend") {
      if((w[0] == "ssl" || w[0] == "sslret" || w[0] == "sslexn" || w[0] == "bio") && w.size() >= 2 && w[1] != "x") continue;
      har::obs(l);
    }
  }
}

struct X
{
  std::string kind;
  bool tls = false;
  std::optional<SocketTcp> basic;
  std::optional<SocketTcpBuffered> buffered;
  std::optional<SocketTcpAsync> async;
  std::unique_ptr<Driver> driver;
  int fd = -1;
  std::string payload; // what X sends (A bytes)
  size_t sentOff = 0;
  size_t pendingEnd = 0; // end offset of a Send that was not taken completely (must be retried with the same bytes)
  std::string got;
  size_t rsz = 4096;
  std::vector<std::future<void>> futs;
  std::vector<bool> futDone;
  bool failed = false; // an exception / disconnect has been reported
  int disc = 0;
};

struct Peer
{
  int fd = -1;          // raw descriptor (plain: harness-owned; TLS: the library socket's)
  std::optional<SocketTcp> tlsSock;
  std::string payload;  // what the peer sends (B bytes)
  size_t sentOff = 0;
  std::string got;      // application bytes the peer read
  bool dead = false;
};

void Register(X &x, SocketImpl *impl)
{
  x.fd = impl->fd;
  int one = 1;
  (void)::setsockopt(x.fd, IPPROTO_TCP, TCP_NODELAY, &one, sizeof(one));
  vos::name_fd(x.fd, "x");
#ifdef SOCKPUPPET_WITH_TLS
  if(x.tls) {
    auto *t = static_cast<SocketTlsImpl *>(impl);
    reg::ssls[t->ssl.get()] = "x";
    reg::bios[SSL_get_rbio(t->ssl.get())] = {"x", 'r'};
    reg::bios[SSL_get_wbio(t->ssl.get())] = {"x", 'w'};
  }
#endif
}

void Wrap(X &x, SocketTcp &&sock)
{
  Register(x, sock.impl.get());
  if(x.kind == "basic") x.basic.emplace(std::move(sock));
  else if(x.kind == "buffered") x.buffered.emplace(std::move(sock), 0U, x.rsz);
  else {
    x.driver = std::make_unique<Driver>();
    vos::name_fd(x.driver->impl->pipeTo.fd, "pipe");
    X *px = &x;
    x.async.emplace(SocketTcpBuffered(std::move(sock), 0U, x.rsz), *x.driver,
                    [px](BufferPtr b) { vos::log_note("rx x " + std::to_string(b->size())); px->got.append(*b); },
                    [px](Address, char const *why) { vos::log_note(std::string("disc x ") + why); px->disc++; px->failed = true; });
  }
}

// ---- X operations ---------------------------------------------------------------------------
// returns: 1 progress, 0 nothing, -1 exception
int XSend(X &x, long T, size_t upTo)
{
  if(x.pendingEnd > x.sentOff) upTo = x.pendingEnd; // "if a send ... fails, it must be retried with the same data"
  if(x.sentOff >= upTo) return 0;
  vos::log_note("api x send " + std::to_string(T) + " " + std::to_string(upTo - x.sentOff));
  try {
    char const *p = x.payload.data() + x.sentOff;
    size_t len = upTo - x.sentOff;
    size_t n = (x.kind == "basic") ? x.basic->Send(p, len, Duration(T)) : x.buffered->Send(p, len, Duration(T));
    x.sentOff += n;
    x.pendingEnd = (x.sentOff < upTo) ? upTo : 0;
    vos::log_note("ret x n " + std::to_string(n));
    return n > 0 ? 1 : 0;
  } catch(std::exception const &ex) {
    x.failed = true;
    vos::log_note("ret x throw " + excName(ex) + " " + ex.what());
    return -1;
  }
}

int XRecv(X &x, long T)
{
  vos::log_note("api x recv " + std::to_string(T) + " " + std::to_string(x.rsz));
  try {
    if(x.kind == "basic") {
      std::string buf(x.rsz, '\0');
      auto r = x.basic->Receive(buf.data(), buf.size(), Duration(T));
      if(r) { x.got.append(buf.data(), *r); vos::log_note("ret x n " + std::to_string(*r)); return 1; }
    } else {
      auto r = x.buffered->Receive(Duration(T));
      if(r) { x.got.append(**r); vos::log_note("ret x n " + std::to_string((*r)->size())); return 1; }
    }
    vos::log_note("ret x none");
    return 0;
  } catch(std::exception const &ex) {
    x.failed = true;
    vos::log_note("ret x throw " + excName(ex) + " " + ex.what());
    return -1;
  }
}

void XEnq(X &x, size_t from, size_t to)
{
  if(to <= from) return;
  vos::log_note("enq x " + std::to_string(to - from));
  x.futs.push_back(x.async->Send(ToBufferPtr(x.payload.substr(from, to - from))));
  x.futDone.push_back(false);
}

void PollFutures(X &x)
{
  for(size_t i = 0; i < x.futs.size(); ++i) {
    if(x.futDone[i]) continue;
    if(x.futs[i].wait_for(std::chrono::seconds(0)) == std::future_status::ready) {
      x.futDone[i] = true;
      try {
        x.futs[i].get();
        vos::log_note("fut x " + std::to_string(i) + " ok");
      } catch(std::future_error const &) {
        vos::log_note("fut x " + std::to_string(i) + " broken");
      } catch(std::exception const &ex) {
        vos::log_note("fut x " + std::to_string(i) + " exn " + ex.what());
      }
    }
  }
}

int XStep(X &x, long T)
{
  size_t before = x.got.size();
  int discBefore = x.disc;
  size_t doneBefore = 0;
  for(auto d : x.futDone) doneBefore += d;
  vos::log_note("api dx step " + std::to_string(T));
#ifdef SOCKPUPPET_WITH_TLS
  // what DriverQuery will see: decrypted bytes the asynchronous TLS socket still holds inside OpenSSL
  for(auto const &p : reg::ssls) {
    if(p.second == "x") vos::log_note("dpend x " + std::to_string(SSL_pending(p.first)));
  }
#endif
  int rc = 0;
  try {
    x.driver->Step(Duration(T));
    vos::log_note("ret dx ok");
  } catch(std::exception const &ex) {
    vos::log_note("ret dx throw " + excName(ex) + " " + ex.what());
    rc = -1;
  }
  PollFutures(x);
  size_t doneAfter = 0;
  for(auto d : x.futDone) doneAfter += d;
  if(rc < 0) return rc;
  return (x.got.size() != before || x.disc != discBefore || doneAfter != doneBefore) ? 1 : 0;
}

// ---- peer operations ------------------------------------------------------------------------
void PeerSend(Peer &p, size_t upTo)
{
  if(p.dead || p.sentOff >= upTo) return;
  size_t len = upTo - p.sentOff;
  if(p.tlsSock) {
    try { p.sentOff += p.tlsSock->Send(p.payload.data() + p.sentOff, len, Duration(0)); } catch(std::exception const &) {}
  } else {
    auto r = ::send(p.fd, p.payload.data() + p.sentOff, len, MSG_NOSIGNAL | MSG_DONTWAIT);
    if(r > 0) p.sentOff += static_cast<size_t>(r);
  }
}

void PeerRecv(Peer &p, size_t upTo)
{
  if(p.dead || p.got.size() >= upTo) return;
  std::string buf(upTo - p.got.size(), '\0');
  if(p.tlsSock) {
    try {
      auto r = p.tlsSock->Receive(buf.data(), buf.size(), Duration(0));
      if(r) p.got.append(buf.data(), *r);
    } catch(std::exception const &) {}
  } else {
    auto r = ::recv(p.fd, buf.data(), buf.size(), MSG_DONTWAIT);
    if(r > 0) p.got.append(buf.data(), static_cast<size_t>(r));
  }
}

// the peer's half of the TLS handshake, without moving application data
void PeerHandshake(Peer &p)
{
#ifdef SOCKPUPPET_WITH_TLS
  if(p.dead || !p.tlsSock) return;
  auto *t = static_cast<SocketTlsImpl *>(p.tlsSock->impl.get());
  if(SSL_is_init_finished(t->ssl.get())) return;
  t->remainingTime = Duration(0);
  try { (void)SSL_do_handshake(t->ssl.get()); } catch(std::exception const &) {}
  // the handshake was driven behind the glue's back: do not leave its cached WANT_READ behind
  if(SSL_is_init_finished(t->ssl.get())) t->lastError = SSL_ERROR_NONE;
#else
  (void)p;
#endif
}

void PeerKill(Peer &p, std::string const &kind)
{
  vos::log_note("peer kill " + kind + " sent=" + std::to_string(p.sentOff) + " read=" + std::to_string(p.got.size()));
  if(kind == "shutwr") {
    ::shutdown(p.fd, SHUT_WR);
  } else if(kind == "rst") {
    linger lg{1, 0};
    ::setsockopt(p.fd, SOL_SOCKET, SO_LINGER, &lg, sizeof(lg));
    if(p.tlsSock) {
      // the descriptor belongs to a library object: abort the connection without giving the number up
      sockaddr sa{};
      sa.sa_family = AF_UNSPEC;
      ::connect(p.fd, &sa, sizeof(sa));
    } else {
      ::close(p.fd);
      p.fd = -1;
    }
    p.dead = true;
  } else { // close
    if(p.tlsSock) {
      bool was = false;
#ifdef SOCKPUPPET_WITH_TLS
      was = reg::on;
#endif
      vos::log_enable(false);
      p.tlsSock.reset(); // orderly TLS close: close_notify, then the descriptor
      vos::log_enable(true);
      (void)was;
    } else {
      ::close(p.fd);
    }
    p.fd = -1;
    p.dead = true;
  }
}

std::map<std::string, std::string> kv(std::vector<std::string> const &w, size_t from)
{
  std::map<std::string, std::string> m;
  for(size_t i = from; i < w.size(); ++i) {
    auto p = w[i].find('=');
    if(p != std::string::npos) m[w[i].substr(0, p)] = w[i].substr(p + 1);
  }
  return m;
}

long geti(std::map<std::string, std::string> &m, char const *k, long dflt)
{
  auto it = m.find(k);
  return it == m.end() ? dflt : std::stol(it->second);
}

// the whole case, inside the forked child
void RunCase(std::vector<std::string> const &ops)
{
  ::signal(SIGPIPE, SIG_DFL);
  vos::reset();
  vos::virtual_time(true);
  vos::hang_exits(true);
  vos::hang_wait_ms(1500);
  vos::ledger_track(false);
  auto x = std::make_unique<X>();
  Peer peer;
  std::optional<Acceptor> acc;
  std::string cert = certDir() + "/test_cert.pem", key = certDir() + "/test_key.pem";
  long T = 0;

  for(auto const &line : ops) {
    auto w = har::words(line);
    if(w.empty()) continue;
    har::out(line);
    try {
      if(w[0] == "setup") {
        auto m = kv(w, 1);
        x->kind = m["x"];
        x->tls = m["tls"] == "1";
        x->rsz = static_cast<size_t>(geti(m, "rsz", 4096));
        T = geti(m, "T", 0);
        std::mt19937 rng(static_cast<unsigned>(geti(m, "seed", 1)));
        // capacity for everything a case may append later: the library keeps a view into the buffer of an
        // incomplete TLS Send (pendingSend), so the bytes must not move between the retries
        x->payload.reserve(static_cast<size_t>(geti(m, "A", 0)) + (4u << 20));
        x->payload.resize(static_cast<size_t>(geti(m, "A", 0)));
        for(auto &ch : x->payload) ch = static_cast<char>(rng());
        peer.payload.resize(static_cast<size_t>(geti(m, "B", 0)));
        for(auto &ch : peer.payload) ch = static_cast<char>(rng());
        bool xIsClient = m["role"] != "srv";
#ifndef SOCKPUPPET_WITH_TLS
        if(x->tls) throw std::runtime_error("TLS case on a build without TLS");
#endif
        if(x->tls) {
#ifdef SOCKPUPPET_WITH_TLS
          acc.emplace(Address("127.0.0.1:0"), cert.c_str(), key.c_str());
          (void)acc->Listen(Duration(0));
          SocketTcp cli(acc->LocalAddress(), cert.c_str(), key.c_str());
          auto want = cli.LocalAddress();
          auto r = acc->Listen(Duration(0));
          for(int i = 0; i < 50 && r && !(r->second == want); ++i) r = acc->Listen(Duration(0));
          if(!r || !(r->second == want)) throw std::runtime_error("accept did not happen");
          if(xIsClient) { peer.tlsSock.emplace(std::move(r->first)); Wrap(*x, std::move(cli)); }
          else { peer.tlsSock.emplace(std::move(cli)); Wrap(*x, std::move(r->first)); }
          peer.fd = peer.tlsSock->impl->fd;
          int one = 1;
          (void)::setsockopt(peer.fd, IPPROTO_TCP, TCP_NODELAY, &one, sizeof(one));
          vos::name_fd(peer.fd, "peer");
          vos::capture(peer.fd, true);
#endif
        } else if(xIsClient) {
          int lfd = ::socket(AF_INET, SOCK_STREAM, 0);
          sockaddr_in sa{};
          sa.sin_family = AF_INET;
          sa.sin_addr.s_addr = htonl(INADDR_LOOPBACK);
          if(::bind(lfd, reinterpret_cast<sockaddr *>(&sa), sizeof(sa)) || ::listen(lfd, 4)) throw std::runtime_error("raw listen failed");
          socklen_t sl = sizeof(sa);
          ::getsockname(lfd, reinterpret_cast<sockaddr *>(&sa), &sl);
          SocketTcp cli(Address("127.0.0.1:" + std::to_string(ntohs(sa.sin_port))));
          auto want = cli.LocalAddress();
          for(int i = 0; i < 50; ++i) {
            sockaddr_in from{};
            socklen_t fl = sizeof(from);
            peer.fd = ::accept(lfd, reinterpret_cast<sockaddr *>(&from), &fl);
            if(peer.fd >= 0 && ntohs(from.sin_port) == want.Port()) break;
            if(peer.fd >= 0) { ::close(peer.fd); peer.fd = -1; }
          }
          ::close(lfd);
          if(peer.fd < 0) throw std::runtime_error("raw accept failed");
          Wrap(*x, std::move(cli));
        } else {
          acc.emplace(Address("127.0.0.1:0"));
          (void)acc->Listen(Duration(0));
          peer.fd = ::socket(AF_INET, SOCK_STREAM, 0);
          sockaddr_in sa{};
          sa.sin_family = AF_INET;
          sa.sin_port = htons(acc->LocalAddress().Port());
          sa.sin_addr.s_addr = htonl(INADDR_LOOPBACK);
          if(::connect(peer.fd, reinterpret_cast<sockaddr *>(&sa), sizeof(sa))) throw std::runtime_error("raw connect failed");
          sockaddr_in me{};
          socklen_t ml = sizeof(me);
          ::getsockname(peer.fd, reinterpret_cast<sockaddr *>(&me), &ml);
          Address want("127.0.0.1:" + std::to_string(ntohs(me.sin_port)));
          auto r = acc->Listen(Duration(0));
          for(int i = 0; i < 50 && r && !(r->second == want); ++i) r = acc->Listen(Duration(0));
          if(!r || !(r->second == want)) throw std::runtime_error("accept did not happen");
          Wrap(*x, std::move(r->first));
        }
        if(peer.fd >= 0) {
          int one = 1;
          (void)::setsockopt(peer.fd, IPPROTO_TCP, TCP_NODELAY, &one, sizeof(one));
        }
        (void)vos::take_log();
        vos::log_enable(true);
#ifdef SOCKPUPPET_WITH_TLS
        reg::on = true;
#endif
        har::obs("setup ok xpay=" + har::hex(x->payload) + " ppay=" + har::hex(peer.payload));
      } else if(w[0] == "hskill") {
        // TLS only: let the handshake run until the peer has put k raw bytes on the wire, then kill
        auto m = kv(w, 1);
        size_t k = static_cast<size_t>(geti(m, "k", 0));
        std::string kind = m["kind"];
        size_t sent = 0;
        vos::budget(peer.fd, static_cast<long>(k));
        int idle = 0;
        for(int round = 0; round < 200 && sent < k && idle < 5 && !x->failed; ++round) {
          size_t before = sent;
          PeerSend(peer, peer.payload.empty() ? 0 : 1); // drives the peer's side of the handshake
          if(peer.payload.empty()) PeerRecv(peer, 1);
          sent += vos::take_capture(peer.fd).size();
          if(sent >= k) break;
          if(x->kind == "async") { if(x->futs.empty() && !x->payload.empty()) XEnq(*x, 0, x->payload.size()); (void)XStep(*x, 0); }
          else if(!x->payload.empty()) (void)XSend(*x, 0, x->payload.size());
          else (void)XRecv(*x, 0);
          Drain();
          if(sent == before) ++idle; else idle = 0;
        }
        vos::budget(peer.fd, -1);
        har::obs("hs rawsent=" + std::to_string(sent));
        PeerKill(peer, kind);
        ::usleep(2000);
        Drain();
      } else if(w[0] == "pre") {
        // peer sends its first w bytes, X sends its first a bytes, peer reads r of them; X does not receive
        // (except what a TLS handshake makes it read)
        auto m = kv(w, 1);
        size_t pw = static_cast<size_t>(geti(m, "w", 0)), a = static_cast<size_t>(geti(m, "a", 0)), r = static_cast<size_t>(geti(m, "r", 0));
        bool enq = false;
        int idle = 0;
        bool hsfull = geti(m, "hsfull", 0) != 0;
        long xcalls = geti(m, "xcalls", 1000000); // X makes at most this many calls (then it is "busy elsewhere")
        auto xInit = [&]() {
#ifdef SOCKPUPPET_WITH_TLS
          if(x->tls) for(auto const &kvp : reg::ssls) return SSL_is_init_finished(const_cast<SSL *>(kvp.first)) != 0;
#endif
          return true;
        };
        for(int round = 0; round < 3000 && idle < 300 && !x->failed; ++round) {
          size_t before = x->sentOff + peer.sentOff + peer.got.size() + x->got.size();
          bool futsDone = true;
          if(xcalls <= 0) {
            // X is silent from now on
          } else if(x->kind == "async") {
            --xcalls;
            if(!enq) { XEnq(*x, 0, a); enq = true; }
            for(auto d : x->futDone) futsDone = futsDone && d;
            if(!futsDone || (x->tls && (peer.sentOff < pw || peer.got.size() < r)) || (hsfull && !xInit())) (void)XStep(*x, 0);
            futsDone = true;
            for(auto d : x->futDone) futsDone = futsDone && d;
            if(futsDone) x->sentOff = a;
          } else {
            --xcalls;
            if(x->sentOff < a) (void)XSend(*x, 0, a);
            else if(x->tls && ((peer.sentOff < pw || peer.got.size() < r) || (hsfull && !xInit())) && (a == 0 || hsfull) && x->got.empty()) (void)XRecv(*x, 0);
          }
          Drain();
          PeerHandshake(peer);
          PeerSend(peer, pw);
          PeerRecv(peer, r);
          if((x->sentOff >= a || xcalls <= 0) && peer.sentOff >= pw && peer.got.size() >= r && (futsDone || xcalls <= 0) && (!hsfull || xInit() || xcalls <= 0)) break;
          if(x->sentOff + peer.sentOff + peer.got.size() + x->got.size() == before) { ++idle; ::usleep(1000); } else idle = 0;
        }
        har::obs("pre done xsent=" + std::to_string(x->sentOff) + " psent=" + std::to_string(peer.sentOff) + " pread=" + std::to_string(peer.got.size()) +
                 " xinit=" + (xInit() ? "1" : "0"));
      } else if(w[0] == "kill") {
        auto m = kv(w, 1);
        PeerKill(peer, m["kind"]);
        ::usleep(2000); // let the FIN / RST travel (kernel, real time)
        Drain();
      } else if(w[0] == "inject") {
        // the next send() on X's descriptor fails (the kernel noticed the dead peer on the write path first)
        auto m = kv(w, 1);
        vos::push("send", x->fd, "fail", geti(m, "err", 32));
      } else if(w[0] == "after") {
        // X goes on: phases r (receive until the failure is reported) / s (send the rest + `big` more bytes)
        auto m = kv(w, 1);
        std::string order = m["order"];
        size_t big = static_cast<size_t>(geti(m, "big", 0));
        if(big) {
          std::mt19937 rng(7);
          size_t old = x->payload.size();
          x->payload.resize(old + big);
          for(size_t i = old; i < x->payload.size(); ++i) x->payload[i] = static_cast<char>(rng());
        }
        long cap = geti(m, "cap", 40);
        for(char ph : order) {
          if(x->kind == "async") {
            if(ph == 's') { XEnq(*x, x->sentOff, x->payload.size()); x->sentOff = x->payload.size(); }
            int idle = 0;
            for(long i = 0; i < cap * 4 && idle < 6; ++i) {
              int rc = XStep(*x, T < 0 ? 0 : T);
              Drain();
              if(rc == 0) { ++idle; ::usleep(1000); } else idle = 0;
              bool all = true;
              for(auto d : x->futDone) all = all && d;
              if(x->disc && all) break;
            }
          } else if(ph == 'r') {
            int none = 0;
            for(long i = 0; i < cap && none < 3; ++i) {
              int rc = XRecv(*x, T);
              Drain();
              if(rc < 0) break;
              if(rc == 0) { ++none; ::usleep(1000); } else none = 0;
            }
          } else {
            int zero = 0;
            for(long i = 0; i < cap && zero < 3 && x->sentOff < x->payload.size(); ++i) {
              int rc = XSend(*x, T, x->payload.size());
              Drain();
              if(rc < 0) break;
              if(rc == 0) { ++zero; ::usleep(1000); } else zero = 0;
              PeerRecv(peer, x->payload.size()); // a half-closed peer keeps reading
            }
          }
        }
      } else if(w[0] == "final") {
        Drain();
        if(x->kind == "async") {
          // destroying the socket releases whatever is still queued as broken promises
          vos::log_note("destroy x");
#ifdef SOCKPUPPET_WITH_TLS
          reg::on = false;
#endif
          vos::log_enable(false);
          x->async.reset();
          vos::log_enable(true);
          for(size_t i = 0; i < x->futs.size(); ++i) {
            if(x->futDone[i]) continue;
            x->futDone[i] = true;
            if(x->futs[i].wait_for(std::chrono::seconds(0)) != std::future_status::ready) { vos::log_note("fut x " + std::to_string(i) + " pending"); continue; }
            try { x->futs[i].get(); vos::log_note("fut x " + std::to_string(i) + " ok"); }
            catch(std::future_error const &) { vos::log_note("fut x " + std::to_string(i) + " broken"); }
            catch(std::exception const &ex) { vos::log_note("fut x " + std::to_string(i) + " exn " + ex.what()); }
          }
          Drain();
        }
        PeerRecv(peer, peer.got.size() + 4096);
        har::obs("got x " + har::hex(x->got));
        har::obs("peergot " + har::hex(peer.got.substr(0, 256)));
        har::obs("state x sent=" + std::to_string(x->sentOff) + " failed=" + (x->failed ? "1" : "0") + " disc=" + std::to_string(x->disc) +
                 " psent=" + std::to_string(peer.sentOff));
      }
    } catch(std::exception const &e) {
      Drain();
      har::obs(std::string("harness-error ") + e.what());
    }
  }
#ifdef SOCKPUPPET_WITH_TLS
  reg::on = false;
#endif
  vos::log_enable(false);
  vos::hang_returns(true);
  x.reset();
  std::fflush(stdout);
}

} // unnamed namespace

int main()
{
  return har::run_cases([](std::string const &, std::vector<std::string> const &ops) {
    std::fflush(stdout);
    pid_t pid = ::fork();
    if(pid == 0) {
      RunCase(ops);
      std::fflush(stdout);
      ::_exit(0);
    }
    int status = 0;
    // real-time watchdog of last resort (never used to assert a timing property)
    for(int i = 0; i < 2500; ++i) {
      pid_t r = ::waitpid(pid, &status, WNOHANG);
      if(r == pid) {
        if(WIFSIGNALED(status)) har::obs("killed signal " + std::to_string(WTERMSIG(status)) + (WTERMSIG(status) == SIGPIPE ? " SIGPIPE" : ""));
        else if(WEXITSTATUS(status) == 97) {} // the vos hang guard already printed `-> hang`
        else if(WEXITSTATUS(status) != 0) har::obs("crash exit=" + std::to_string(WEXITSTATUS(status)));
        return;
      }
      ::usleep(10000);
    }
    ::kill(pid, SIGKILL);
    ::waitpid(pid, &status, 0);
    har::obs("hang watchdog: case did not finish within 25 s");
  });
}

// C03 scenario interpreter: async TCP sockets and acceptors on one Driver; the harness plays the
// peers with raw sockets (connect / send / close / rst), waits with the real poll until the kernel
// made the scripted readiness true, then calls Driver::Step(0).  Handlers record kind, socket
// ordinal, payload (length + hash), address ordinal, thread.
#include "h/common.h"
#include "vos/vos.h"

#include "driver_impl.h"
#include "socket_async_impl.h" // internal headers (as the repo's internals test does): name the descriptors
#include "socket_buffered_impl.h"
#include "socket_impl.h"
#include "sockpuppet/socket_async.h"

#include <arpa/inet.h>
#include <cstring>
#include <csignal>
#include <fcntl.h>
#include <linux/sockios.h>
#include <sys/ioctl.h>
#include <future>
#include <map>
#include <memory>
#include <netinet/in.h>
#include <netinet/tcp.h>
#include <optional>
#include <poll.h>
#include <sys/socket.h>
#include <thread>
#include <unistd.h>

using namespace sockpuppet;

namespace {

unsigned char Pat(long id, size_t j)
{
  return static_cast<unsigned char>((id * 37 + static_cast<long>(j) * 11 + static_cast<long>(j / 251) * 3 + 1) & 0xff);
}

uint64_t Fnv(char const *p, size_t n)
{
  uint64_t h = 14695981039346656037ULL;
  for(size_t i = 0; i < n; ++i) { h ^= static_cast<unsigned char>(p[i]); h *= 1099511628211ULL; }
  return h;
}

uint16_t LocalPort(int fd)
{
  sockaddr_in a{};
  socklen_t l = sizeof(a);
  ::getsockname(fd, reinterpret_cast<sockaddr *>(&a), &l);
  return ntohs(a.sin_port);
}

void NoDelay(int fd)
{
  int one = 1; // no Nagle: every peer write is on the wire (and in the library's queue) when write() returns
  ::setsockopt(fd, IPPROTO_TCP, TCP_NODELAY, &one, sizeof(one));
}

// wait until everything the peer wrote has left its send queue (on loopback: sits in the library's
// receive queue).  write() alone does not guarantee that: with many small segments the congestion
// window / delayed ACKs hold data back, and a later reset would discard it.
void WaitSent(int fd)
{
  for(int i = 0; i < 4000; ++i) {
    int unsent = 0;
    if(::ioctl(fd, SIOCOUTQNSD, &unsent) != 0 || unsent == 0) return;
    ::usleep(500);
  }
}

void WaitReadable(int fd)
{
  pollfd p{fd, POLLIN, 0};
  (void)::poll(&p, 1, 2000);
}

struct Scen
{
  std::unique_ptr<Driver> driver;
  size_t rxCount = 1, rxSize = 64;
  bool careless = false; // the connect handler lets exceptions of its own constructor calls escape into the library
  std::unique_ptr<BufferPool> sendPool;
  std::map<long, std::unique_ptr<SocketTcpAsync>> socks;
  std::map<long, std::unique_ptr<AcceptorAsync>> accs;
  std::map<long, int> libFd;           // library-side descriptor of connection / acceptor i
  std::map<long, int> peerFd;          // harness-side descriptor of connection i
  std::map<long, size_t> sentOff;      // bytes peer i sent so far
  std::map<long, std::vector<long>> onev;
  std::vector<std::string> events;
  std::vector<std::future<void>> futs;
  std::thread::id stepper;

  // every peer has its own loopback address (127.0.1.i = raw peer i, 127.0.2.i = listener of client i),
  // so ordinals never depend on (reusable) port numbers
  std::string AddrOrd(Address const &a) const
  {
    auto h = a.Host();
    if(h.rfind("127.0.1.", 0) == 0 || h.rfind("127.0.2.", 0) == 0) return h.substr(8);
    return "?host:" + h;
  }

  std::string T() const { return std::this_thread::get_id() == stepper ? " t=1" : " t=0"; }

  void RunOnEv(long i)
  {
    auto it = onev.find(i);
    if(it == onev.end()) return;
    auto targets = std::move(it->second);
    onev.erase(it);
    for(long j : targets) {
      if(j == i) continue;
      if(socks.count(j) || accs.count(j)) {
        socks.erase(j);
        accs.erase(j);
        libFd.erase(j);
        events.push_back("destroyed " + std::to_string(j));
      }
    }
  }

  static std::string Reason(char const *r)
  {
    std::string s(r ? r : "");
    if(s == "connection closed") return "eof";
    if(s.rfind("failed to receive", 0) == 0) return "fail";
    if(s == "poll hangup/error") return "poll";
    if(s == "out of buffers") return "nobuf";
    for(auto &c : s) if(c == ' ') c = '_';
    return "other:" + s;
  }

  void Attach(long i, SocketTcp &&tcp)
  {
    auto s = std::make_unique<SocketTcpAsync>(
        SocketTcpBuffered(std::move(tcp), rxCount, rxSize), *driver,
        [this, i](BufferPtr b) {
          events.push_back("data " + std::to_string(i) + " " + std::to_string(b->size()) + " " +
                           std::to_string(Fnv(b->data(), b->size())) + T());
          b.reset();
          RunOnEv(i);
        },
        [this, i](Address a, char const *reason) {
          // is the descriptor still in the driver's poll set while the handler runs? (internal view)
          int fd = libFd.count(i) ? libFd[i] : -1;
          bool reg = false;
          for(auto const &p : driver->impl->pfds) reg = reg || (p.fd == fd);
          events.push_back("disconnect " + std::to_string(i) + " " + AddrOrd(a) + " " + Reason(reason) + (reg ? " reg=1" : " reg=0") + T());
          RunOnEv(i);
        });
    libFd[i] = s->impl->buff->sock->fd;
    vos::name_fd(libFd[i], "c" + std::to_string(i));
    socks[i] = std::move(s);
  }

  void Client(long i)
  {
    int lfd = ::socket(AF_INET, SOCK_STREAM, 0);
    int one = 1;
    ::setsockopt(lfd, SOL_SOCKET, SO_REUSEADDR, &one, sizeof(one)); // ports of earlier cases may linger in TIME_WAIT
    sockaddr_in a{};
    a.sin_family = AF_INET;
    a.sin_addr.s_addr = htonl(0x7f000200u + static_cast<uint32_t>(i));
    ::bind(lfd, reinterpret_cast<sockaddr *>(&a), sizeof(a));
    ::listen(lfd, 4);
    uint16_t port = LocalPort(lfd);
    SocketTcp tcp(Address("127.0.2." + std::to_string(i), std::to_string(port)));
    peerFd[i] = ::accept(lfd, nullptr, nullptr);
    NoDelay(peerFd[i]);
    ::close(lfd);
    Attach(i, std::move(tcp));
  }

  void NewAcceptor(long a)
  {
    auto acc = std::make_unique<AcceptorAsync>(Acceptor(Address("127.0.0.1", "0")), *driver,
        [this, a](SocketTcp tcp, Address from) {
          auto ord = AddrOrd(from);
          std::string sockOrd = "?";
          try { sockOrd = AddrOrd(tcp.PeerAddress()); } catch(std::exception const &) { sockOrd = "?unusable"; }
          events.push_back("connect " + std::to_string(a) + " " + sockOrd + " " + ord + T());
          if(ord[0] != '?') {
            // a connection the peer already reset cannot be upgraded (getpeername fails): the handler drops it
            try { Attach(std::stol(ord), std::move(tcp)); }
            catch(std::exception const &) {
              events.push_back("destroyed " + ord);
              // a less careful user lets the constructor's exception leave the handler: the library must cope
              // (C15: a peer that fails between connect and accept is never fatal for the driver)
              if(careless) throw;
            }
          }
          RunOnEv(a);
        });
    libFd[a] = acc->impl->buff->sock->fd;
    vos::name_fd(libFd[a], "a" + std::to_string(a));
    accs[a] = std::move(acc);
  }

  void PConnect(long a, long i)
  {
    int fd = ::socket(AF_INET, SOCK_STREAM, 0);
    int one = 1;
    ::setsockopt(fd, SOL_SOCKET, SO_REUSEADDR, &one, sizeof(one));
    sockaddr_in me{};
    me.sin_family = AF_INET;
    me.sin_addr.s_addr = htonl(0x7f000100u + static_cast<uint32_t>(i));
    ::bind(fd, reinterpret_cast<sockaddr *>(&me), sizeof(me));
    sockaddr_in to{};
    to.sin_family = AF_INET;
    to.sin_addr.s_addr = htonl(INADDR_LOOPBACK);
    to.sin_port = htons(accs.at(a)->LocalAddress().Port());
    if(::connect(fd, reinterpret_cast<sockaddr *>(&to), sizeof(to)) != 0) {
      har::obs("throw harness connect failed");
      ::close(fd);
      return;
    }
    peerFd[i] = fd;
    NoDelay(fd);
    WaitReadable(libFd.at(a));
  }

  void PeerDrain(int fd)
  {
    char buf[4096];
    while(::recv(fd, buf, sizeof(buf), MSG_DONTWAIT) > 0) {}
  }

  void Step(bool onThread)
  {
    (void)vos::take_log();
    vos::log_enable(true);
    events.clear();
    std::string thrown;
    auto body = [&]() {
      stepper = std::this_thread::get_id();
      try {
        driver->Step(Duration(0));
      } catch(std::logic_error const &e) {
        thrown = std::string("logic ") + e.what();
      } catch(std::exception const &e) {
        thrown = std::string("other ") + e.what();
      }
    };
    if(onThread) std::thread(body).join(); else body();
    stepper = std::thread::id();
    vos::log_enable(false);
    bool any = false;
    for(auto const &l : vos::take_log()) {
      if(l.rfind("send c", 0) != 0) continue;
      auto sp = l.find(' ', 5);
      std::string who = l.substr(6, sp - 6);
      auto lp = l.find("len=");
      auto le = l.find(' ', lp);
      auto arrow = l.find("-> ");
      std::string res = l.substr(arrow + 3);
      har::obs("sys send " + who + " " + l.substr(lp + 4, le - lp - 4) + " " + (res.rfind("-1", 0) == 0 ? std::string("fail") : res));
      any = true;
    }
    for(auto const &e : events) { har::obs("ev " + e); any = true; }
    if(!thrown.empty()) { for(auto &c : thrown) if(c == '\n') c = ' '; har::obs("throw " + thrown); any = true; }
    if(!any) har::obs("none");
  }

  void Close()
  {
    // the peers reset first: no TIME_WAIT entries are left behind (thousands of cases share the port range)
    for(auto &p : peerFd) if(p.second >= 0) {
      linger lg{1, 0};
      ::setsockopt(p.second, SOL_SOCKET, SO_LINGER, &lg, sizeof(lg));
      ::close(p.second);
    }
    peerFd.clear();
    futs.clear();
    socks.clear();
    accs.clear();
    driver.reset();
    sendPool.reset();
  }
};

} // unnamed namespace

int main()
{
  std::signal(SIGPIPE, SIG_IGN); // the raw peers may write to connections the library side already closed
  return har::run_cases([](std::string const &, std::vector<std::string> const &ops) {
    vos::reset();
    Scen sc;
    sc.driver = std::make_unique<Driver>();
    sc.sendPool = std::make_unique<BufferPool>(0U, 0U);
    for(auto const &line : ops) {
      auto w = har::words(line);
      if(w.empty()) continue;
      auto num = [&](size_t k) { return std::stol(w[k]); };
      auto known = [&](long i) { return sc.socks.count(i) || sc.accs.count(i) || sc.peerFd.count(i); };
      if(w[0] == "careless") { sc.careless = true; continue; } // not echoed: no observable of its own
      bool can = (w[0] == "rx" && w.size() == 3) ||
                 (w[0] == "client" && w.size() == 2 && !known(num(1))) ||
                 (w[0] == "acceptor" && w.size() == 2 && !known(num(1))) ||
                 (w[0] == "pconnect" && w.size() == 3 && sc.accs.count(num(1)) && !known(num(2))) ||
                 ((w[0] == "send" && w.size() == 3) && sc.peerFd.count(num(1)) && sc.peerFd[num(1)] >= 0) ||
                 ((w[0] == "close" || w[0] == "rst") && w.size() == 2 && sc.peerFd.count(num(1)) && sc.peerFd[num(1)] >= 0) ||
                 (w[0] == "arm" && w.size() == 2 && sc.socks.count(num(1))) ||
                 (w[0] == "destroy" && w.size() == 2 && (sc.socks.count(num(1)) || sc.accs.count(num(1)))) ||
                 (w[0] == "onev" && w.size() == 3) || (w[0] == "step");
      if(!can) continue;
      har::out(line);
      try {
        if(w[0] == "rx") { sc.rxCount = std::stoul(w[1]); sc.rxSize = std::stoul(w[2]); }
        else if(w[0] == "client") sc.Client(num(1));
        else if(w[0] == "acceptor") sc.NewAcceptor(num(1));
        else if(w[0] == "pconnect") sc.PConnect(num(1), num(2));
        else if(w[0] == "send") {
          long i = num(1);
          size_t len = std::stoul(w[2]);
          std::string p(len, '\0');
          for(size_t j = 0; j < len; ++j) p[j] = static_cast<char>(Pat(i, sc.sentOff[i] + j));
          sc.sentOff[i] += len;
          size_t off = 0;
          while(off < len) {
            auto r = ::write(sc.peerFd[i], p.data() + off, len - off);
            if(r <= 0) break; // the library side is gone (destroyed socket): nobody will read this
            off += static_cast<size_t>(r);
          }
          WaitSent(sc.peerFd[i]);
          if(sc.libFd.count(i) && sc.socks.count(i)) WaitReadable(sc.libFd[i]);
        } else if(w[0] == "close" || w[0] == "rst") {
          long i = num(1);
          int fd = sc.peerFd[i];
          if(w[0] == "rst") {
            linger lg{1, 0};
            ::setsockopt(fd, SOL_SOCKET, SO_LINGER, &lg, sizeof(lg));
          } else {
            sc.PeerDrain(fd); // unread data would turn the FIN into a RST
          }
          ::close(fd);
          sc.peerFd[i] = -1;
          if(sc.libFd.count(i) && sc.socks.count(i)) WaitReadable(sc.libFd[i]);
        } else if(w[0] == "arm") {
          auto b = sc.sendPool->Get();
          b->assign(1, 'z');
          sc.futs.push_back(sc.socks.at(num(1))->Send(std::move(b)));
        } else if(w[0] == "destroy") {
          long i = num(1);
          sc.socks.erase(i);
          sc.accs.erase(i);
          sc.libFd.erase(i);
        } else if(w[0] == "onev") {
          sc.onev[num(1)].push_back(num(2));
        } else if(w[0] == "step") {
          sc.Step(w.size() > 1 && w[1] == "thread");
        }
      } catch(std::exception const &e) {
        std::string m = e.what();
        for(auto &c : m) if(c == '\n') c = ' ';
        har::obs("throw harness " + m);
      }
    }
    sc.Close();
  });
}

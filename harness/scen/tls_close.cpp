// C01 / C15 over TLS, library-to-library: "everything sent before the peer closes is delivered before Receive reports
// the closure" - when the CLOSING side is a library TLS socket that is destroyed while its send path is congested and
// while it has unread input.  The destructor's orderly shutdown must not turn into a reset that discards bytes its Send
// calls already reported as sent.
//
// ops:   close <seed> <kind: basic|buffered> <T: timeout of the sender's Send calls, ms>
// obs:   -> closed reported=<n> got=<m> prefix=<0|1> end=<closed|error|timeout>      and then
//        -> ok | -> violation <text>
//
// Real time, real loopback, no shim: the point is the kernel's RST-on-close-with-unread-data behaviour.
#include "h/common.h"

#include "sockpuppet/socket.h"
#include "sockpuppet/socket_buffered.h"

#include <chrono>
#include <optional>
#include <random>
#include <string>
#include <thread>
#include <unistd.h>

using namespace sockpuppet;

namespace {

std::string certDir()
{
  char const *e = std::getenv("VERIF_CERTS");
  return e ? e : "harness/certs";
}

} // unnamed namespace

int main()
{
  return har::run_cases([](std::string const &, std::vector<std::string> const &ops) {
    for(auto const &line : ops) {
      auto w = har::words(line);
      if(w.size() < 4 || w[0] != "close") continue;
      har::out(line);
      std::mt19937 rng(static_cast<unsigned>(std::stoul(w[1])));
      bool buffered = (w[2] == "buffered");
      long T = std::stol(w[3]);
      std::string cert = certDir() + "/test_cert.pem", key = certDir() + "/test_key.pem";
      try {
        Acceptor acc(Address("127.0.0.1:0"), cert.c_str(), key.c_str());
        (void)acc.Listen(Duration(0)); // listen() happens in here
        auto addr = acc.LocalAddress();

        // payload with position-dependent content
        std::string payload(4U << 20, '\0');
        for(size_t i = 0; i < payload.size(); ++i) payload[i] = static_cast<char>((i * 131U + (i >> 11)) ^ rng());
        size_t reported = 0;

        std::optional<SocketTcp> srv;
        {
          std::optional<SocketTcp> cli;
          std::thread t([&]() { cli.emplace(addr, cert.c_str(), key.c_str()); (void)cli->Send("hello", 5); });
          auto p = acc.Listen(Duration(5000));
          if(!p) { t.join(); har::obs("violation set-up: nobody connected"); continue; }
          srv.emplace(std::move(p->first));
          char hello[8];
          (void)srv->Receive(hello, sizeof(hello), Duration(5000)); // drives the handshake on the server side
          t.join();
          // something the client will never read
          (void)srv->Send("unread input for the closing side", 33, Duration(1000));

          // the client sends until its send path is congested (the server is not reading)
          // (a call that came back short is repeated with exactly its remainder: SocketTlsImpl::Write's precondition)
          int idle = 0;
          size_t chunkEnd = 0;
          while(reported < payload.size() && idle < 3) {
            if(reported == chunkEnd) chunkEnd = std::min<size_t>(payload.size(), reported + 65536);
            size_t n = cli->Send(payload.data() + reported, chunkEnd - reported, Duration(T));
            reported += n;
            idle = (n == 0) ? idle + 1 : 0;
          }
          // ... and is destroyed in that state: ~SocketTcp -> Shutdown
          if(buffered) {
            SocketTcpBuffered b(std::move(*cli), 1U, 4096U);
            cli.reset();
          } else {
            cli.reset();
          }
        }

        // now the server reads everything there is
        std::string got;
        std::string end = "timeout";
        char buf[65536];
        for(int quiet = 0; quiet < 30;) {
          try {
            auto n = srv->Receive(buf, sizeof(buf), Duration(100));
            if(n && *n) { got.append(buf, *n); quiet = 0; } else ++quiet;
          } catch(std::runtime_error const &e) {
            end = (std::string(e.what()).find("closed") != std::string::npos) ? "closed" : std::string("error:") + e.what();
            break;
          }
        }
        bool prefix = got.size() <= payload.size() && payload.compare(0, got.size(), got) == 0;
        har::obs("closed reported=" + std::to_string(reported) + " got=" + std::to_string(got.size()) + " prefix=" +
                 (prefix ? "1" : "0") + " end=" + end.substr(0, 60));
        if(!prefix) har::obs("violation the receiver obtained bytes the sender never sent");
        else if(got.size() < reported)
          har::obs("violation Send reported " + std::to_string(reported) + " bytes as sent, the peer obtained only " +
                   std::to_string(got.size()) + " before the closure was reported (" + end.substr(0, 60) + ")");
        else har::obs("ok");
      } catch(std::exception const &e) {
        har::obs(std::string("violation exception in the scenario: ") + e.what());
      }
    }
  });
}
